#!/bin/sh
# Build the overlay venv (offline): /venv's site-packages + crosshair-tool/z3 from the local wheelhouse.
set -e
cd "$(dirname "$0")/.."
if [ -x .venv/bin/python ] && .venv/bin/python -c 'import z3, crosshair, numpy, scipy, h5py' 2>/dev/null; then
  exit 0
fi
rm -rf .venv
/venv/bin/python -m venv .venv
echo "/venv/lib/python3.12/site-packages" > .venv/lib/python3.12/site-packages/_base.pth
PIP_NO_INDEX=1 .venv/bin/pip install -q --no-index --find-links /opt/veriftools/wheels crosshair-tool z3-solver >/dev/null 2>&1 || \
  PIP_NO_INDEX=1 .venv/bin/pip install --no-index --find-links /opt/veriftools/wheels crosshair-tool z3-solver
.venv/bin/python -c 'import z3, crosshair, numpy, scipy, h5py; print("overlay venv ok", z3.get_version_string())'
