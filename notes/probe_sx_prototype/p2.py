import numpy as np, h5py, tempfile, os, json
from biom import Table, load_table
from biom.parse import parse_biom_table
d = tempfile.mkdtemp()
def rt(t, name, **kw):
    p = os.path.join(d, name)
    try:
        with h5py.File(p, 'w') as f: t.to_hdf5(f, 'gen', **kw)
    except Exception as e:
        return 'WRITE ERR %s %s' % (type(e).__name__, e)
    try:
        r = load_table(p)
    except Exception as e:
        return 'READ ERR %s %s' % (type(e).__name__, str(e)[:100])
    return r
t = Table(np.array([[1,2],[3,4.5]]), ['é', 'b'], ['x/y', 'z w'])
r = rt(t, 'a.biom'); print('nonascii:', r if isinstance(r,str) else (list(r.ids('observation')), list(r.ids()), r==t))
t = Table(np.array([[1,2],[3,4.5]]), ['a', 'b'], ['x', 'y'], observation_metadata=[{'a/b': 'u', 'n': 1, 'taxonomy': ['k','p']}, {'a/b': 'v', 'n': 2, 'taxonomy': ['k']}], sample_metadata=[{'f': 1.5, 'b': True}, {'f': 2.5, 'b': False}])
r = rt(t, 'b.biom'); print('md:', r if isinstance(r,str) else (r.metadata(axis='observation'), r.metadata()))
t = Table(np.array([[0,0],[0,0.]]), ['a', 'b'], ['x', 'y'])
r = rt(t, 'c.biom'); print('allzero:', r if isinstance(r,str) else r.matrix_data.toarray())
t = Table(np.zeros((0,2)), [], ['x', 'y'])
r = rt(t, 'd.biom'); print('0xM:', r if isinstance(r,str) else r.shape)
t = Table(np.array([[1,2],[3,4.5]]), ['a', 'b'], ['x', 'y'], table_id='tid', type='OTU table', observation_group_metadata={'tree': ('newick', '(a,b);')})
r = rt(t, 'e.biom', creation_date=__import__('datetime').datetime(2020,1,2,3,4,5))
print('attrs:', r if isinstance(r,str) else (r.table_id, r.type, r.generated_by, r.create_date, r.group_metadata('observation'), r.group_metadata()))
t = Table(np.array([[1,2],[3,4.5]]), ['a', 'b'], ['x', 'y'], observation_metadata=[{'s': 'é'}, {'s': ''}])
r = rt(t, 'f.biom'); print('md2:', r if isinstance(r,str) else (r.metadata(axis='observation')))
t = Table(np.array([[1,2],[3,4.5]]), ['a', 'b'], ['x', 'y'], observation_metadata=[{'n': 1}, {'n': 2.5}])
r = rt(t, 'g.biom'); print('md3:', r if isinstance(r,str) else (r.metadata(axis='observation')))
# json non-ascii etc
t = Table(np.array([[1,2],[3,4.5]]), ['é"', 'b\\'], ['x\n', 'z w'], observation_metadata=[{'s': 'é"'}, {'s': None}])
s = t.to_json('g'); r = Table.from_json(json.loads(s)); print('json ids', list(r.ids('observation')), list(r.ids()), r.metadata(axis='observation'))
import io
buf = io.StringIO(); t.to_json('g', direct_io=buf, creation_date=__import__('datetime').datetime(2020,1,2)); print('direct==str', buf.getvalue()==t.to_json('g', creation_date=__import__('datetime').datetime(2020,1,2)))
# tsv
t = Table(np.array([[1e-7,2e22],[3,4.5]]), ['a', 'b'], ['x', 'y'])
print(t.to_tsv()); r = Table.from_tsv(t.to_tsv().split('\n'), None, None, lambda x: x); print(r.matrix_data.toarray(), r == t)
t1 = Table(np.array([[1.0],[3]]), ['a', 'b'], ['x'])
r = Table.from_tsv(t1.to_tsv().split('\n'), None, None, lambda x: x); print('single sample', r.ids(), r.ids('observation'), r.matrix_data.toarray().tolist())
