import sys, time, itertools, types
sys.path.insert(0, '/tmp/probe2')
import numpy as np, z3
from sx import core, spmodel, env
T, KNS = env.load(); Table = T.Table; T.dok_matrix = spmodel.dok_matrix
from t_sx1_lib import sym_table, run
Z = core._z

def chk_eq(ex):
    n, m = 2, 2
    a_mat, d = sym_table(ex, n, m, 'v', nz=False)
    # second representation of the SAME dense matrix: canonical csr from dense, zeros dropped when provably zero
    dense = np.empty((n, m), dtype=object)
    for i in range(n):
        for j in range(m): dense[i, j] = d[i][j]
    a = Table(a_mat, ['o1', 'o2'], ['s1', 's2'])
    b = Table(dense, ['o1', 'o2'], ['s1', 's2'])
    r1 = a == b; r2 = b == a
    if not (r1 and r2): return ('eq', r1, r2, a_mat.format, [str(x) for x in a_mat.data], str(ex.solver.model()) if ex._check() == z3.sat else '')
    return None

def chk_o2m(ex):
    n, m = 2, 2
    mat, d = sym_table(ex, n, m, 'v', fmts=('csr',), orders=False)
    groups = [[], ['A'], ['A', 'B'], ['B', 'B']]
    g = [groups[ex.choice(4)] for _ in range(n)]
    md = [{'p': [('p' + x, x) for x in gi]} for gi in g]
    if not any(g): return None
    t = Table(mat, ['o1', 'o2'], ['s1', 's2'], observation_metadata=md)
    mode = ['add', 'divide'][ex.choice(2)]
    def f(id_, md_):
        for pw, part in md_['p']: yield pw, part
    r = t.collapse(f, one_to_many=True, norm=False, one_to_many_mode=mode, axis='observation')
    out = r.matrix_data.toarray(); claims = []
    for gi, grp in enumerate(r.ids('observation')):
        for j in range(m):
            e = 0.0
            for v in range(n):
                k = len(g[v]); mult = g[v].count(grp)
                if mult: e = e + (d[v][j] * mult / (k if mode == 'divide' else 1))
            claims.append(Z(out[gi, j]) == Z(e))
    mdl = ex.prove(z3.And(*claims))
    return None if mdl is None else ('o2m', g, mode, str(mdl))

def chk_access(ex):
    n, m = 2, 3
    mat, d = sym_table(ex, n, m, 'v', nz=False, orders=True)
    t = Table(mat, ['o1', 'o2'], ['s1', 's2', 's3'])
    claims = []
    for (vi, ii, _), (vj, ij, _) in t.iter_pairwise(axis='observation'):
        a, b = int(ii[1]) - 1, int(ij[1]) - 1
        claims += [Z(vi[k]) == Z(d[a][k]) for k in range(m)] + [Z(vj[k]) == Z(d[b][k]) for k in range(m)]
    nz = set(t.nonzero())
    for i, o in enumerate(['o1', 'o2']):
        for j, s_ in enumerate(['s1', 's2', 's3']):
            claims.append((Z(d[i][j]) != 0) == ((o, s_) in nz) if isinstance(d[i][j], core.SNum) else z3.BoolVal(((o, s_) in nz) == (d[i][j] != 0)))
    dens = t.get_table_density()
    mdl = ex.prove(z3.And(*claims))
    return None if mdl is None else ('access', str(mdl), nz)

which = sys.argv[1]
run({'eq': chk_eq, 'o2m': chk_o2m, 'access': chk_access}[which], which)
