"""Prototype AST instrumentation of string building."""
import ast
class Rewriter(ast.NodeTransformer):
    def visit_BinOp(self, node):
        self.generic_visit(node)
        if isinstance(node.op, ast.Mod):
            return ast.copy_location(ast.Call(ast.Name('__sx_mod__', ast.Load()), [node.left, node.right], []), node)
        return node
    def visit_JoinedStr(self, node):
        self.generic_visit(node)
        parts = []
        for v in node.values:
            if isinstance(v, ast.Constant): parts.append(v)
            else:
                assert v.format_spec is None and v.conversion == -1, ast.dump(v)
                parts.append(v.value)
        return ast.copy_location(ast.Call(ast.Name('__sx_fstr__', ast.Load()), parts, []), node)
    def visit_Call(self, node):
        self.generic_visit(node)
        f = node.func
        if isinstance(f, ast.Attribute) and f.attr == 'join' and len(node.args) == 1 and not node.keywords:
            return ast.copy_location(ast.Call(ast.Name('__sx_join__', ast.Load()), [f.value, node.args[0]], []), node)
        if isinstance(f, ast.Attribute) and f.attr == 'format' and isinstance(f.value, ast.Constant) and isinstance(f.value.value, str):
            return ast.copy_location(ast.Call(ast.Name('__sx_format__', ast.Load()), [f.value] + node.args, []), node)
        return node
def instrument(src, filename):
    tree = ast.parse(src, filename)
    tree = Rewriter().visit(tree); ast.fix_missing_locations(tree)
    return compile(tree, filename, 'exec')
