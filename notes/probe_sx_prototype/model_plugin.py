import sys
sys.path.insert(0, '/tmp/probe2')
import instr_plugin
from sx import core, spmodel, env
import biom.table as T
T.np = env.npx; T.zeros = env.npx.zeros
for nm in ('coo_matrix', 'csc_matrix', 'csr_matrix', 'isspmatrix', 'vstack', 'hstack'):
    setattr(T, nm, getattr(spmodel, nm))
