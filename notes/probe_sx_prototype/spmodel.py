"""Prototype model of the scipy.sparse subset biom.table uses. data arrays are numpy object arrays
(elements: python numbers or SNum); index arrays are real int arrays. Structure is concrete per path."""
import numpy as np
from . import core

def _obj(a):
    out = np.empty(len(a), dtype=object)
    for i, v in enumerate(a): out[i] = v
    return out

def _i32(a): return np.asarray(list(a), dtype=np.int32)

class spmatrix:
    ndim = 2
    @property
    def shape(self): return self._shape
    @property
    def dtype(self): return np.dtype(float)
    def getformat(self): return self.format
    def asformat(self, fmt):
        return {'csr': self.tocsr, 'csc': self.tocsc, 'coo': self.tocoo}[fmt]()
    def astype(self, t): return self.copy()
    def toarray(self):
        out = np.empty(self._shape, dtype=object); out[:] = 0.0
        c = self.tocoo()
        for r, cc, v in zip(c.row, c.col, c.data): out[r, cc] = out[r, cc] + v
        return out
    @property
    def T(self): return self.transpose()
    def sum(self, axis=None):
        d = self.toarray()
        if axis is None:
            tot = 0.0
            for v in d.flat: tot = tot + v
            return tot
        if axis == 0:
            out = np.empty((1, self._shape[1]), dtype=object)
            for j in range(self._shape[1]):
                t = 0.0
                for i in range(self._shape[0]): t = t + d[i, j]
                out[0, j] = t
            return out
        out = np.empty((self._shape[0], 1), dtype=object)
        for i in range(self._shape[0]):
            t = 0.0
            for j in range(self._shape[1]): t = t + d[i, j]
            out[i, 0] = t
        return out

class _cs(spmatrix):
    """compressed: major axis = rows for csr, cols for csc"""
    def __init__(self, arg, shape=None, dtype=None):
        if isinstance(arg, spmatrix):
            o = arg.asformat(self.format)
            if o is arg: o = arg.copy()
            self.data, self.indices, self.indptr, self._shape = o.data, o.indices, o.indptr, o._shape
        elif isinstance(arg, tuple) and len(arg) == 2 and all(isinstance(x, (int, np.integer)) for x in arg):
            self._shape = (int(arg[0]), int(arg[1]))
            self.data = _obj([]); self.indices = _i32([]); self.indptr = np.zeros(self._shape[self._maj] + 1, dtype=np.int32)
        elif isinstance(arg, tuple) and len(arg) == 3:
            d, i, p = arg
            self.data = _obj(list(d)); self.indices = _i32(i); self.indptr = _i32(p)
            assert shape is not None
            self._shape = (int(shape[0]), int(shape[1]))
        elif isinstance(arg, tuple) and len(arg) == 2:
            o = coo_matrix(arg, shape=shape).asformat(self.format)
            self.data, self.indices, self.indptr, self._shape = o.data, o.indices, o.indptr, o._shape
        else:
            o = coo_matrix(arg, shape=shape).asformat(self.format)
            self.data, self.indices, self.indptr, self._shape = o.data, o.indices, o.indptr, o._shape
    @property
    def nnz(self): return int(self.indptr[-1])
    @property
    def has_sorted_indices(self):
        for k in range(len(self.indptr) - 1):
            seg = self.indices[self.indptr[k]:self.indptr[k + 1]]
            if any(seg[i] > seg[i + 1] for i in range(len(seg) - 1)): return False
        return True
    def copy(self):
        return self.__class__((self.data.copy(), self.indices.copy(), self.indptr.copy()), shape=self._shape)
    def eliminate_zeros(self):
        nd, ni, np_ = [], [], [0]
        for k in range(len(self.indptr) - 1):
            for p in range(self.indptr[k], self.indptr[k + 1]):
                if self.data[p] != 0:
                    nd.append(self.data[p]); ni.append(self.indices[p])
            np_.append(len(nd))
        self.data = _obj(nd); self.indices = _i32(ni); self.indptr = _i32(np_)
    def tocoo(self, copy=True):
        maj = []
        for k in range(len(self.indptr) - 1): maj += [k] * int(self.indptr[k + 1] - self.indptr[k])
        if self._maj == 0: return coo_matrix((self.data.copy(), (maj, self.indices.copy())), shape=self._shape)
        return coo_matrix((self.data.copy(), (self.indices.copy(), maj)), shape=self._shape)
    def _swap(self, cls):
        # csr->csc or csc->csr: counting sort by minor index, stable in major: yields sorted indices; dups kept
        nmin = self._shape[1 - self._maj]
        buckets = [[] for _ in range(nmin)]
        for k in range(len(self.indptr) - 1):
            for p in range(self.indptr[k], self.indptr[k + 1]):
                buckets[self.indices[p]].append((k, self.data[p]))
        d, i, p = [], [], [0]
        for b in buckets:
            for k, v in b: d.append(v); i.append(k)
            p.append(len(d))
        return cls((_obj(d), i, p), shape=self._shape)
    def transpose(self, axes=None, copy=False):
        other = csc_matrix if self.format == 'csr' else csr_matrix
        d, i, p = (self.data.copy(), self.indices.copy(), self.indptr.copy()) if copy else (self.data, self.indices, self.indptr)
        return other((d, i, p), shape=(self._shape[1], self._shape[0])) if copy else other._wrap(d, i, p, (self._shape[1], self._shape[0]))
    @classmethod
    def _wrap(cls, d, i, p, shape):
        o = cls.__new__(cls); o.data, o.indices, o.indptr, o._shape = d, i, p, shape; return o
    def _major_vec(self, k):
        s, e = self.indptr[k], self.indptr[k + 1]
        shp = (1, self._shape[1]) if self._maj == 0 else (self._shape[0], 1)
        return self.__class__((self.data[s:e].copy(), self.indices[s:e].copy(), [0, e - s]), shape=shp)
    def _get(self, maj, mino):
        tot = 0.0
        for p in range(self.indptr[maj], self.indptr[maj + 1]):
            if self.indices[p] == mino: tot = tot + self.data[p]
        return tot
    def __getitem__(self, key):
        r, c = key
        if isinstance(r, (int, np.integer)) and isinstance(c, (int, np.integer)):
            return self._get(r, c) if self._maj == 0 else self._get(c, r)
        majk, mink = (r, c) if self._maj == 0 else (c, r)
        if isinstance(majk, slice):
            assert majk == slice(None)
            # minor fancy index: stored order kept, minor index remapped to position in fancy
            fancy = list(np.asarray(mink))
            d, i, p = [], [], [0]
            for k in range(len(self.indptr) - 1):
                for q in range(self.indptr[k], self.indptr[k + 1]):
                    for pos, f in enumerate(fancy):
                        if f == self.indices[q]: d.append(self.data[q]); i.append(pos)
                p.append(len(d))
            shp = (self._shape[0], len(fancy)) if self._maj == 0 else (len(fancy), self._shape[1])
            return self.__class__((_obj(d), i, p), shape=shp)
        else:
            assert mink == slice(None)
            fancy = list(np.asarray(majk))
            d, i, p = [], [], [0]
            for f in fancy:
                for q in range(self.indptr[f], self.indptr[f + 1]): d.append(self.data[q]); i.append(self.indices[q])
                p.append(len(d))
            shp = (len(fancy), self._shape[1]) if self._maj == 0 else (self._shape[0], len(fancy))
            return self.__class__((_obj(d), i, p), shape=shp)
    def __truediv__(self, s):
        return self.__class__((_obj([v / s for v in self.data]), self.indices.copy(), self.indptr.copy()), shape=self._shape)

class csr_matrix(_cs):
    format = 'csr'; _maj = 0
    def tocsr(self, copy=False): return self
    def tocsc(self, copy=False): return self._swap(csc_matrix)
    def getrow(self, i): return self._major_vec(i)
    def getcol(self, j): return self.tocsc().getcol(j).tocsr()

class csc_matrix(_cs):
    format = 'csc'; _maj = 1
    def tocsc(self, copy=False): return self
    def tocsr(self, copy=False): return self._swap(csr_matrix)
    def getcol(self, j): return self._major_vec(j)
    def getrow(self, i): return self.tocsr().getrow(i).tocsc()

class coo_matrix(spmatrix):
    format = 'coo'
    def __init__(self, arg, shape=None, dtype=None):
        if isinstance(arg, spmatrix):
            o = arg.tocoo(); self.data, self.row, self.col, self._shape = o.data.copy(), o.row.copy(), o.col.copy(), o._shape
        elif isinstance(arg, tuple) and len(arg) == 2 and all(isinstance(x, (int, np.integer)) for x in arg):
            self._shape = (int(arg[0]), int(arg[1])); self.data = _obj([]); self.row = _i32([]); self.col = _i32([])
        elif isinstance(arg, tuple) and len(arg) == 2:
            d, (r, c) = arg
            self.data = _obj(list(d)); self.row = _i32(r); self.col = _i32(c)
            if shape is None: shape = (max(self.row) + 1, max(self.col) + 1)
            self._shape = (int(shape[0]), int(shape[1]))
        else:
            dense = np.asarray(arg, dtype=object) if not isinstance(arg, np.ndarray) else arg
            if dense.ndim == 1: dense = dense.reshape(1, -1)
            d, r, c = [], [], []
            for i in range(dense.shape[0]):
                for j in range(dense.shape[1]):
                    if dense[i, j] != 0: d.append(dense[i, j]); r.append(i); c.append(j)
            self.data = _obj(d); self.row = _i32(r); self.col = _i32(c)
            self._shape = tuple(int(x) for x in (shape if shape is not None else dense.shape))
    @property
    def nnz(self): return len(self.data)
    def copy(self): return coo_matrix((self.data.copy(), (self.row.copy(), self.col.copy())), shape=self._shape)
    def tocoo(self, copy=False): return self
    def transpose(self, axes=None, copy=False):
        return coo_matrix((self.data.copy(), (self.col.copy(), self.row.copy())), shape=(self._shape[1], self._shape[0]))
    def _compress(self, cls, maj, mino, nmaj):
        # group by major, sort by minor, sum duplicates (scipy: sum_duplicates after coo_tocsr)
        rows = [dict() for _ in range(nmaj)]
        for a, b, v in zip(maj, mino, self.data):
            rows[a][b] = rows[a][b] + v if b in rows[a] else v
        d, i, p = [], [], [0]
        for rd in rows:
            for b in sorted(rd): d.append(rd[b]); i.append(b)
            p.append(len(d))
        return cls((_obj(d), i, p), shape=self._shape)
    def tocsr(self, copy=False): return self._compress(csr_matrix, self.row, self.col, self._shape[0])
    def tocsc(self, copy=False): return self._compress(csc_matrix, self.col, self.row, self._shape[1])
    def eliminate_zeros(self):
        keep = [k for k in range(len(self.data)) if self.data[k] != 0]
        self.data = self.data[keep]; self.row = self.row[keep]; self.col = self.col[keep]

def isspmatrix(x): return isinstance(x, spmatrix)

def vstack(blocks, format=None, dtype=None):
    d, r, c = [], [], []; off = 0; ncol = blocks[0].shape[1]
    for b in blocks:
        co = b.tocoo(); assert b.shape[1] == ncol
        d += list(co.data); r += [x + off for x in co.row]; c += list(co.col); off += b.shape[0]
    return coo_matrix((d, (r, c)), shape=(off, ncol)).tocsr()

def hstack(blocks, format=None, dtype=None):
    d, r, c = [], [], []; off = 0; nrow = blocks[0].shape[0]
    for b in blocks:
        co = b.tocoo(); assert b.shape[0] == nrow
        d += list(co.data); r += list(co.row); c += [x + off for x in co.col]; off += b.shape[1]
    out = coo_matrix((d, (r, c)), shape=(nrow, off))
    return out.tocsc() if all(b.format == 'csc' for b in blocks) else out.tocsr()

# ---- probe additions
def _ne(self, other):
    a = self.toarray(); b = other.toarray()
    d, r, c = [], [], []
    for i in range(a.shape[0]):
        for j in range(a.shape[1]):
            if a[i, j] != b[i, j]: d.append(True); r.append(i); c.append(j)
    return coo_matrix((d, (r, c)), shape=self._shape).tocsr()
spmatrix.__ne__ = _ne
spmatrix.__hash__ = lambda self: id(self)

class dok_matrix(spmatrix):
    format = 'dok'
    def __init__(self, shape, dtype=None): self._shape = tuple(int(x) for x in shape); self.d = {}
    def __getitem__(self, k): return self.d.get((int(k[0]), int(k[1])), 0.0)
    def __setitem__(self, k, v): self.d[(int(k[0]), int(k[1]))] = v
    def tocoo(self, copy=False):
        ks = sorted(self.d); return coo_matrix(([self.d[k] for k in ks], ([k[0] for k in ks], [k[1] for k in ks])), shape=self._shape)
    def tocsr(self, copy=False): return self.tocoo().tocsr()
    def tocsc(self, copy=False): return self.tocoo().tocsc()
    def transpose(self, axes=None, copy=False):
        o = dok_matrix((self._shape[1], self._shape[0])); o.d = {(b, a): v for (a, b), v in self.d.items()}; return o
