import sys, time, itertools, types
sys.path.insert(0, '/tmp/probe')
import numpy as np, z3
from sx import core, spmodel, env
T, KNS = env.load(); Table = T.Table
from t_sx1_lib import run
Z = core._z
K = KNS['_subsample']

class ChoiceArr:
    def __init__(self, ex, total, n):
        self.v = [ex.var(f'p{k}', 'int') for k in range(n)]
        for x in self.v: ex.add(z3.And(x.z >= 0, x.z < Z(total)))
        if n > 1: ex.add(z3.Distinct(*[x.z for x in self.v]))
        self.ex = ex; self.sorted = False
    def sort(self):
        for a, b in zip(self.v, self.v[1:]): self.ex.add(a.z < b.z)
        self.sorted = True
    def __getitem__(self, k): return self.v[k]
class RNG:
    def __init__(self, ex): self.ex = ex; self.calls = []
    def choice(self, total, n, replace=False, shuffle=False):
        assert replace is False
        c = ChoiceArr(self.ex, total, n); self.calls.append((total, c)); return c

def astype_patch(a, t): return a
def chk(ex):
    L = 3; n = [1, 2, 3][ex.choice(3)]
    data = np.empty(L, dtype=object)
    cnt = [ex.var(f'c{k}', 'int') for k in range(L)]
    for c in cnt: ex.add(c.z >= 0)
    for k in range(L): data[k] = cnt[k]
    indptr = np.array([0, L], dtype=np.int32)
    rng = RNG(ex)
    K._subsample_without_replacement(data, indptr, n, rng)
    tot = cnt[0] + cnt[1] + cnt[2]
    if not rng.calls:
        # must be because tot < n, and all zeroed
        m = ex.prove(z3.And(Z(tot) < n, *[Z(data[k]) == 0 for k in range(L)]))
        return None if m is None else ('short', str(m))
    total, c = rng.calls[0]
    pre = [0, cnt[0], cnt[0] + cnt[1], tot]
    claims = [Z(total) == Z(tot)]
    for e in range(L):
        exp = z3.Sum([z3.If(z3.And(p.z >= Z(pre[e]), p.z < Z(pre[e + 1])), 1, 0) for p in c.v])
        claims.append(Z(data[e]) == exp)
    m = ex.prove(z3.And(*claims))
    return None if m is None else ('walk', n, [str(x) for x in data], str(m))
src = open('/tmp/probe/py_subsample.py').read().replace('data[start:end].astype(np.int64)', 'data[start:end]')
mod = types.ModuleType('k'); mod.np = env.npx; exec(src, mod.__dict__); K = mod
run(chk, 'subsample_wo')
