import numpy as np, h5py, tempfile, os
from biom import Table
d = tempfile.mkdtemp(); p = os.path.join(d, 'a.biom')
t = Table(np.array([[1,0,3],[0,5,6.]]), ['o1','o2'], ['s1','s2','s3'])
with h5py.File(p, 'w') as f: t.to_hdf5(f, 'g')
with h5py.File(p, 'r') as f:
    for kw in (dict(subset_with_metadata=False), dict()):
        try:
            r = Table.from_hdf5(f, ids=['s1','s3'], axis='sample', **kw); print(kw, r.ids(), r.ids('observation'), r.matrix_data.toarray().tolist())
        except Exception as e: print(kw, 'ERR', type(e).__name__, e)
    try:
        r = Table.from_hdf5(f, ids=['s1','zz'], axis='sample', subset_with_metadata=False); print('unknown accepted', r.ids())
    except Exception as e: print('unknown', type(e).__name__, e)
# min with explicit zeros
from scipy.sparse import csr_matrix
m = csr_matrix((np.array([1.,0.,2.]), np.array([0,1,1]), np.array([0,2,3])), shape=(2,2))
a = Table(m, ['a','b'], ['x','y']); print('min', a.min('observation'), a.min('sample'))
a = Table(m, ['a','b'], ['x','y']); print('transform', a.transform(lambda v,i,md: v+1, axis='observation', inplace=False).matrix_data.toarray().tolist())
