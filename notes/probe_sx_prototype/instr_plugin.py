"""pytest plugin: load biom.* through the AST instrumentation (real libraries bound)."""
import sys, builtins, importlib.machinery, importlib.abc
sys.path.insert(0, '/tmp/probe2')
from sx import text, instr
builtins.__sx_mod__ = text.sx_mod; builtins.__sx_join__ = text.sx_join
builtins.__sx_fstr__ = text.sx_fstr; builtins.__sx_format__ = text.sx_format
class L(importlib.machinery.SourceFileLoader):
    def source_to_code(self, data, path, *, _optimize=-1):
        return instr.instrument(data.decode('utf8') if isinstance(data, bytes) else data, path)
class F(importlib.abc.MetaPathFinder):
    def find_spec(self, name, path, target=None):
        if name.startswith('biom.') and 'tests' not in name and path:
            spec = importlib.machinery.PathFinder.find_spec(name, path)
            if spec and spec.origin and spec.origin.endswith('.py'):
                spec.loader = L(name, spec.origin); COUNT.append(name)
                return spec
        return None
COUNT = []
sys.meta_path.insert(0, F())
