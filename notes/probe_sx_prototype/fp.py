import z3, time
# exists finite double v: parse(format_%.6f(v)) != v  -- model: q = round_half_even(v*10^6)/10^6 as real, back = RNE(q)
def query(P, lo=None):
    v = z3.FP('v', z3.Float64())
    r = z3.fpToReal(v)
    k = z3.Int('k')   # k = rounded integer of r*10^P  (|r*10^P - k| <= 1/2)
    s = z3.Solver(); s.set('timeout', 60000)
    scale = z3.RealVal(10**P)
    s.add(z3.Not(z3.fpIsNaN(v)), z3.Not(z3.fpIsInf(v)))
    s.add(z3.ToReal(k) - r*scale <= z3.RealVal('1/2'), r*scale - z3.ToReal(k) <= z3.RealVal('1/2'))
    back = z3.fpRealToFP(z3.RNE(), z3.ToReal(k)/scale, z3.Float64())
    s.add(z3.Not(z3.fpEQ(back, v)))
    if lo is not None: s.add(z3.fpGT(z3.fpAbs(v), z3.FPVal(lo, z3.Float64())))
    t=time.time(); res = s.check(); dt=time.time()-t
    print(P, lo, res, round(dt,2), s.model()[v] if res==z3.sat else None)
query(6)
query(6, 1.0)
