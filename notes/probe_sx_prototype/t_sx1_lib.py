import sys, time, itertools
sys.path.insert(0, '/tmp/probe')
import numpy as np, z3
from sx import core, spmodel, env
T, KNS = env.load()
Table = T.Table

def sym_table(ex, n, m, tag='v', fmts=('csr','csc','coo'), orders=True, nz=True):
    """arbitrary valid CSR/CSC/COO representation of an n x m table: stored set, order, values symbolic"""
    fmt = fmts[ex.choice(len(fmts))] if len(fmts) > 1 else fmts[0]
    vals = {}
    rows = []
    d, i, p = [], [], [0]
    maj, mino = (n, m) if fmt != 'csc' else (m, n)
    for a in range(maj):
        stored = [b for b in range(mino) if ex.choice(2)]
        # order: choose permutation index
        perms = list(itertools.permutations(stored))
        order = perms[ex.choice(len(perms))] if (len(perms) > 1 and orders) else tuple(stored)
        for b in order:
            r, c = (a, b) if fmt != 'csc' else (b, a)
            v = ex.var(f'{tag}_{r}_{c}')
            if nz: ex.add(v.z != 0); core.NONZERO.add(v.z.get_id())
            vals[(r, c)] = v; d.append(v); i.append(b)
        p.append(len(d))
    if fmt == 'csc': mat = spmodel.csc_matrix((d, i, p), shape=(n, m))
    else:
        mat = spmodel.csr_matrix((d, i, p), shape=(n, m))
        if fmt == 'coo': mat = mat.tocoo()
    dense = [[vals.get((r, c), 0.0) for c in range(m)] for r in range(n)]
    return mat, dense

def run(check, label):
    ex = core.Explorer(); core.set_current(ex)
    paths = 0; viol = None; t0 = time.time(); aborted = 0
    while True:
        ex.start_path()
        try:
            r = check(ex)
            paths += 1
            if r is not None and viol is None:
                viol = r
                break
        except core.Abort:
            aborted += 1
        if not ex.next_path(): break
    print(f"{label}: paths={paths} aborted={aborted} queries={ex.nqueries} solver={ex.solver_time:.2f}s wall={time.time()-t0:.2f}s viol={viol}")

