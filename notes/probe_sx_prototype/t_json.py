import sys, types, io, datetime
sys.path.insert(0, '/tmp/probe2'); sys.path.insert(0, '/repo')
import numpy as np, z3
from sx import core, spmodel, env, text, instr
import biom  # real package for dependencies
src = open('/repo/biom/table.py').read()
mod = types.ModuleType('biom.table'); mod.__package__ = 'biom'; mod.__file__ = '/repo/biom/table.py'
g = mod.__dict__
g.update(__sx_mod__=text.sx_mod, __sx_join__=text.sx_join, __sx_fstr__=text.sx_fstr, __sx_format__=text.sx_format)
class _StrMeta(type):
    def __instancecheck__(cls, x): return isinstance(x, (__builtins__.str if hasattr(__builtins__, 'str') else str, text.SText))
import builtins
class sstr(metaclass=_StrMeta):
    def __new__(cls, x=''):
        t = text.to_text(x, 'str')
        return t if t is not None else builtins.str(x)
g['float'] = env.sfloat; g['str'] = sstr
exec(instr.instrument(src, '/repo/biom/table.py'), g)
g['np'] = env.npx; g['zeros'] = env.npx.zeros
for nm in ('coo_matrix', 'csc_matrix', 'csr_matrix', 'isspmatrix', 'vstack', 'hstack'): g[nm] = getattr(spmodel, nm)
Table = g['Table']
from t_sx1_lib import sym_table, run
class Out:
    def __init__(s): s.p = []
    def write(s, x): s.p.append(x)
def chk(ex):
    mat, d = sym_table(ex, 2, 2, 'v', fmts=('csr',), orders=False)
    gb = text.SText([text.Hole('raw', 's', z3.String('gen'))])
    t = Table(mat, ['a"', 'b'], ['x', 'y'], table_id=text.SText([text.Hole('raw', 's', z3.String('tid'))]), type='OTU table')
    doc = t.to_json(gb, creation_date=datetime.datetime(2020, 1, 1))
    o = Out(); t.to_json(gb, direct_io=o, creation_date=datetime.datetime(2020, 1, 1))
    chk.last = (doc, text.mk(o.p))
    return None
run(chk, 'to_json')
print(chk.last[0]); print(chk.last[1])
print(Table.to_tsv(Table(sym_table.__globals__['spmodel'].csr_matrix(([core.SNum(z3.Real('q'))],[1],[0,1,1]), shape=(2,2)), ['a','b'], ['x','y'])))
