"""Probe: SText with Raw holes (z3 strings under a domain regex) supporting the str methods the TSV parser uses."""
import z3
from . import core
from .text import Hole, SText, mk, to_text

WS = [' ', '\t', '\n', '\r', '\x0b', '\x0c', '\x1c', '\x1d', '\x1e', '\x1f', '\x85', '\xa0', ' ', ' ', ' ', ' ', ' ', '　'] + [chr(c) for c in range(0x2000, 0x200b)]
def cls(chars): return z3.Union(*[z3.Re(z3.StringVal(c)) for c in chars]) if len(chars) > 1 else z3.Re(z3.StringVal(chars[0]))
ANY = z3.AllChar(z3.ReSort(z3.StringSort()))
WSRE = cls(WS)
def raw(name, ex, domain):
    s = z3.String(name); ex.add(z3.InRe(s, domain)); ex.add(z3.Length(s) <= 6)
    return SText([Hole('raw', 's', s)])

def _decide(cond):
    """fork on a z3 condition about holes"""
    return core.EX.branch(cond)

def _first_is_ws(h): return z3.InRe(h.term, z3.Concat(WSRE, z3.Star(ANY)))
def _last_is_ws(h): return z3.InRe(h.term, z3.Concat(z3.Star(ANY), WSRE))
def _all_ws(h): return z3.InRe(h.term, z3.Star(WSRE))

class Unsupported(Exception): pass

def _strip_side(parts, left):
    parts = list(parts)
    while parts:
        p = parts[0] if left else parts[-1]
        if isinstance(p, str):
            q = p.lstrip() if left else p.rstrip()
            if q:
                if left: parts[0] = q
                else: parts[-1] = q
                break
            parts.pop(0 if left else -1)
        else:
            if p.kind == 'num': break            # token axiom: number tokens have no whitespace
            if _decide(_all_ws(p)): parts.pop(0 if left else -1); continue
            if _decide(_first_is_ws(p) if left else _last_is_ws(p)): raise Unsupported('strip inside hole')
            break
    return parts

def strip(self, chars=None):
    assert chars is None
    return mk(_strip_side(_strip_side(self.parts, True), False))
def rstrip(self, chars=None): return mk(_strip_side(self.parts, False))
def lstrip(self, chars=None): return mk(_strip_side(self.parts, True))
def startswith(self, pre):
    p = self.parts[0]
    if isinstance(p, str):
        if len(p) >= len(pre): return p.startswith(pre)
        raise Unsupported('prefix spans hole')
    if p.kind == 'num': return False if not pre[0].isdigit() and pre[0] not in '+-.ni' else (_ for _ in ()).throw(Unsupported('num prefix'))
    return _decide(z3.PrefixOf(z3.StringVal(pre), p.term))
def _split(self, sep, maxsplit, right):
    assert sep is not None and len(sep) == 1
    pieces = [[]]
    for p in self.parts:
        if isinstance(p, str):
            segs = p.split(sep)
            pieces[-1].append(segs[0])
            for sgm in segs[1:]: pieces.append([sgm])
        else:
            if p.kind == 'raw' and _decide(z3.Contains(p.term, z3.StringVal(sep))): raise Unsupported('separator inside hole')
            pieces[-1].append(p)
    out = [mk(x) if x else '' for x in pieces]
    if maxsplit is not None and maxsplit >= 0 and len(out) > maxsplit + 1:
        if right:
            head = out[:len(out) - maxsplit]; j = []
            for k, h in enumerate(head):
                if k: j.append(sep)
                j.append(h)
            out = [mk(j)] + out[len(out) - maxsplit:]
        else: raise Unsupported('maxsplit left')
    return out
def split(self, sep=None, maxsplit=-1): return _split(self, sep, None if maxsplit == -1 else maxsplit, False)
def rsplit(self, sep=None, maxsplit=-1): return _split(self, sep, None if maxsplit == -1 else maxsplit, True)
def _eq(self, o):
    if isinstance(o, SText):
        if len(self.parts) == len(o.parts) == 1 and not isinstance(self.parts[0], str) and not isinstance(o.parts[0], str):
            a, b = self.parts[0], o.parts[0]
            if a is b: return True
            if a.kind == b.kind == 'raw': return _decide(a.term == b.term)
        raise Unsupported('eq')
    if isinstance(o, str):
        if len(self.parts) == 1 and not isinstance(self.parts[0], str) and self.parts[0].kind == 'raw':
            return _decide(self.parts[0].term == z3.StringVal(o))
        raise Unsupported('eq str')
    return NotImplemented
def _hash(self):
    if len(self.parts) == 1 and not isinstance(self.parts[0], str): return hash(id(self.parts[0]))
    raise Unsupported('hash')
for nm, f in dict(strip=strip, rstrip=rstrip, lstrip=lstrip, startswith=startswith, split=split, rsplit=rsplit, __eq__=_eq, __hash__=_hash).items():
    setattr(SText, nm, f)
