import numpy as np, json, io, warnings
from biom import Table
from biom.err import errstate, geterr, seterr
from scipy.sparse import csr_matrix
# 1
before = geterr()
try:
    with errstate(empty='raise'):
        raise RuntimeError
except RuntimeError: pass
print("1 errstate restored after exc:", geterr()==before); seterr(**before)
# 2
try: seterr(empty='raise', bogus='raise')
except KeyError as e: print("2 keyerror", e)
print("2 unchanged:", geterr()==before); seterr(**before)
try: seterr(empty='warn', obssize='bogus')
except KeyError as e: print("2b keyerror", e)
print("2b unchanged:", geterr()==before); seterr(**before)
# 3
t = Table(np.array([[1e-7, 0.1234567],[3,0]]), ['a','b'], ['x','y'], table_id='q"q')
s = t.to_json('g')
try:
    d = json.loads(s); print("3 parsed", d['data'])
except Exception as e: print("3 json err", e)
t = Table(np.array([[1e-7, 0.1234567],[3,0]]), ['a','b'], ['x','y'])
d = json.loads(t.to_json('g')); print("3 data", d['data'])
# 4 filter predicate unsorted
t = Table(np.array([[1,2,3],[4,5,6]]), ['a','b'], ['x','y','z'])
t2 = t.sort_order(['z','x','y'])
print("4 sorted idx?", t2.matrix_data.has_sorted_indices, t2.matrix_data.indices)
seen=[]
t2.filter(lambda v,i,m: seen.append((i,v.copy())) or True, axis='observation', inplace=False)
print("4 seen", seen, "expected", [t2.data('a','observation'), t2.data('b','observation')])
# 5 subsample axis observation
t = Table(np.array([[5,5,0],[1,2,3]]), ['a','b'], ['x','y','z'])
r = t.subsample(3, axis='observation', seed=1)
print("5", r.ids('observation'), r.ids(), r.sum('observation'), r.sum('sample'))
# 6 equality explicit zeros
m = csr_matrix((np.array([1.,0.,2.]), np.array([0,1,1]), np.array([0,2,3])), shape=(2,2))
a = Table(m, ['a','b'], ['x','y']); b = Table(np.array([[1,0],[0,2]]), ['a','b'], ['x','y'])
print("6 stored", a.matrix_data.nnz, b.matrix_data.nnz, "eq", a==b, b==a)
a.nnz; print("6 after nnz", a==b)
# 9 all zero
t = Table(np.zeros((2,3)), ['a','b'], ['x','y','z'])
try:
    Table.from_json(json.loads(t.to_json('g'))); print("9 ok")
except Exception as e: print("9 err", type(e), e)
# 10 merge fast path md
a = Table(np.array([[1,2]]), ['o1'], ['s1','s2'])
b = Table(np.array([[1,2]]), ['o1'], ['s1','s3'], sample_metadata=[{'k':1},{'k':2}])
print("10", a.merge(b).metadata(), b.merge(a).metadata())
