from typing import List, Tuple
import biom.err as E

KINDS = ['empty','obssize','sampsize','obsdup','sampdup','obsmdsize','sampmdsize','all','bogus']
STATES = ['raise','ignore','call','print','warn','bogus']
DEFAULT = {'empty':'ignore','obssize':'raise','sampsize':'raise','obsdup':'raise','sampdup':'raise','obsmdsize':'raise','sampmdsize':'raise'}

def ref_seterr(state, kw):
    new = dict(state)
    if 'all' in kw:
        if kw['all'] not in STATES[:5]: raise KeyError
        return {k: kw['all'] for k in state}
    for k, v in kw.items():
        if v not in STATES[:5] or k not in state: raise KeyError
    new.update(kw); return new

def seterr_refused_unchanged(k1: int, s1: int, k2: int, s2: int) -> bool:
    """
    pre: 0 <= k1 < 9 and 0 <= k2 < 9 and 0 <= s1 < 6 and 0 <= s2 < 6 and k1 != k2
    post: _
    """
    E.seterr(**DEFAULT)
    kw = {KINDS[k1]: STATES[s1], KINDS[k2]: STATES[s2]}
    try:
        exp = ref_seterr(DEFAULT, kw)
    except KeyError:
        exp = None
    try:
        E.seterr(**kw)
        got = E.geterr()
        ok = exp is not None and got == exp
    except KeyError:
        ok = exp is None and E.geterr() == DEFAULT
    return ok

def errstate_restores(k1: int, s1: int, exc: bool) -> bool:
    """
    pre: 0 <= k1 < 8 and 0 <= s1 < 5
    post: _
    """
    E.seterr(**DEFAULT)
    try:
        with E.errstate(**{KINDS[k1]: STATES[s1]}):
            inside = E.geterr()
            if exc: raise RuntimeError()
    except RuntimeError:
        pass
    return E.geterr() == DEFAULT
