"""Prototype symbolic-execution core: decision-replay DFS over z3 path conditions."""
import z3, time, math

class Abort(BaseException):
    """path abandoned (infeasible / assumption failed)"""

class Explorer:
    def __init__(self, timeout_ms=10000):
        self.solver = z3.Solver()
        self.solver.set('timeout', timeout_ms)
        self.prefix = []      # list of (value, n_alternatives_left list)
        self.pos = 0
        self.trail = []       # decisions made on this path: [taken, pending_alternatives]
        self.pc = []
        self.nqueries = 0
        self.solver_time = 0.0
        self.fresh = 0

    # ---- low level
    def _check(self, *extra):
        t = time.time(); self.nqueries += 1
        r = self.solver.check(*extra)
        self.solver_time += time.time() - t
        return r

    def start_path(self):
        self.solver.reset(); self.solver.set('timeout', 10000)
        self.pos = 0; self.pc = []; self.fresh = 0

    def add(self, c):
        self.pc.append(c); self.solver.add(c)

    def assume(self, c):
        """constrain inputs; abort if infeasible"""
        if isinstance(c, SBool): c = c.z
        if c is True: return
        if c is False: raise Abort()
        self.add(c)
        if self._check() != z3.sat: raise Abort()

    def branch(self, cond):
        """cond: z3 BoolRef. returns python bool, recording decision"""
        cond = z3.simplify(cond)
        if z3.is_true(cond): return True
        if z3.is_false(cond): return False
        if self.pos < len(self.trail):
            taken, _ = self.trail[self.pos]
            self.pos += 1
            self.add(cond if taken else z3.Not(cond))
            return taken
        t_ok = self._check(cond) == z3.sat
        f_ok = self._check(z3.Not(cond)) == z3.sat
        if t_ok and f_ok:
            self.trail.append([True, [False]]); self.pos += 1
            self.add(cond); return True
        if t_ok:
            self.trail.append([True, []]); self.pos += 1; self.add(cond); return True
        if f_ok:
            self.trail.append([False, []]); self.pos += 1; self.add(z3.Not(cond)); return False
        raise Abort()

    def choice(self, n, label=''):
        """solver-free n-way fork (structural choice)"""
        if self.pos < len(self.trail):
            taken, _ = self.trail[self.pos]; self.pos += 1; return taken
        self.trail.append([0, list(range(1, n))]); self.pos += 1
        return 0

    def next_path(self):
        while self.trail and not self.trail[-1][1]:
            self.trail.pop()
        if not self.trail: return False
        self.trail[-1][0] = self.trail[-1][1].pop(0)
        return True

    def var(self, name, sort='real'):
        self.fresh += 1
        nm = f"{name}"
        if sort == 'real': return SNum(z3.Real(nm))
        if sort == 'int': return SNum(z3.Int(nm), isint=True)
        raise ValueError

    def prove(self, claim):
        """is claim implied by pc? returns None if proved else model"""
        if isinstance(claim, SBool): claim = claim.z
        if claim is True: return None
        r = self._check(z3.Not(claim)) if claim is not False else self._check()
        if r == z3.unsat: return None
        if r == z3.sat: return self.solver.model()
        raise RuntimeError("solver unknown")

EX = None
NONZERO = set()
def current(): return EX
def set_current(e):
    global EX; EX = e

def _z(x):
    if isinstance(x, SNum): return x.z
    if isinstance(x, SBool): return z3.If(x.z, 1, 0)
    if isinstance(x, bool): return z3.IntVal(int(x))
    if isinstance(x, int): return z3.IntVal(x)
    if isinstance(x, float):
        if x == int(x): return z3.RealVal(int(x))
        return z3.RealVal(repr(x))
    import numpy as np
    if isinstance(x, np.integer): return z3.IntVal(int(x))
    if isinstance(x, np.floating): return _z(float(x))
    if isinstance(x, np.bool_): return z3.IntVal(int(x))
    return NotImplemented

class SBool:
    __slots__ = ('z',)
    def __init__(self, z_): self.z = z_
    def __bool__(self): return EX.branch(self.z)
    def __and__(self, o): return SBool(z3.And(self.z, o.z if isinstance(o, SBool) else bool(o)))
    __rand__ = __and__
    def __or__(self, o): return SBool(z3.Or(self.z, o.z if isinstance(o, SBool) else bool(o)))
    __ror__ = __or__
    def __xor__(self, o): return SBool(z3.Xor(self.z, o.z if isinstance(o, SBool) else bool(o)))
    __rxor__ = __xor__
    def __invert__(self): return SBool(z3.Not(self.z))
    def __int__(self): return 1 if bool(self) else 0
    __index__ = __int__
    def __repr__(self): return f"SBool({self.z})"

def _mk(zexpr):
    zexpr = z3.simplify(zexpr)
    if z3.is_rational_value(zexpr) or z3.is_int_value(zexpr):
        if z3.is_int_value(zexpr): return float(zexpr.as_long()) if False else zexpr.as_long()
        return float(zexpr.numerator_as_long()) / float(zexpr.denominator_as_long())
    return SNum(zexpr)

class SNum:
    __slots__ = ('z', 'isint')
    def __init__(self, z_, isint=False): self.z = z_; self.isint = isint
    def _bin(self, o, f, r=False):
        oz = _z(o)
        if oz is NotImplemented: return NotImplemented
        return _mk(f(oz, self.z) if r else f(self.z, oz))
    def __add__(self, o): return self._bin(o, lambda a, b: a + b)
    def __radd__(self, o): return self._bin(o, lambda a, b: a + b, True)
    def __sub__(self, o): return self._bin(o, lambda a, b: a - b)
    def __rsub__(self, o): return self._bin(o, lambda a, b: a - b, True)
    def __mul__(self, o): return self._bin(o, lambda a, b: a * b)
    def __rmul__(self, o): return self._bin(o, lambda a, b: a * b, True)
    def __truediv__(self, o):
        oz = _z(o)
        if oz is NotImplemented: return NotImplemented
        return _mk(_real(self.z) / _real(oz))
    def __rtruediv__(self, o):
        oz = _z(o)
        if oz is NotImplemented: return NotImplemented
        return _mk(_real(oz) / _real(self.z))
    def __neg__(self): return _mk(-self.z)
    def __pos__(self): return self
    def _cmp(self, o, f):
        oz = _z(o)
        if oz is NotImplemented: return NotImplemented
        r = z3.simplify(f(self.z, oz))
        if z3.is_true(r): return True
        if z3.is_false(r): return False
        return SBool(r)
    def __lt__(self, o): return self._cmp(o, lambda a, b: a < b)
    def __le__(self, o): return self._cmp(o, lambda a, b: a <= b)
    def __gt__(self, o): return self._cmp(o, lambda a, b: a > b)
    def __ge__(self, o): return self._cmp(o, lambda a, b: a >= b)
    def __eq__(self, o):
        if self.z.get_id() in NONZERO and isinstance(o, (int, float)) and o == 0: return False
        return self._cmp(o, lambda a, b: a == b)
    def __ne__(self, o):
        if self.z.get_id() in NONZERO and isinstance(o, (int, float)) and o == 0: return True
        return self._cmp(o, lambda a, b: a != b)
    def __hash__(self): return hash(self.z)
    def __bool__(self):
        if self.z.get_id() in NONZERO: return True
        return EX.branch(self.z != 0)
    def __repr__(self): return f"S<{self.z}>"

def _real(z_):
    return z3.ToReal(z_) if z_.is_int() else z_
