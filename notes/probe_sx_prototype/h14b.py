import json
from biom.parse import direct_slice_data, get_axis_indices

WS = ['', ' ', '\n', '\t', '  ', '\n  ']

def slice_samples_ws(i1: int, i2: int, i3: int, i4: int) -> bool:
    """
    pre: 0 <= i1 < 6 and 0 <= i2 < 6 and 0 <= i3 < 6 and 0 <= i4 < 6
    post: _
    """
    w1, w2, w3, w4 = WS[i1], WS[i2], WS[i3], WS[i4]
    doc = ('{"id": "x","shape":' + w4 + '[2,' + w1 + '3],"matrix_type": "sparse","data":' + w4 + '[[0,' + w1 + '1,' + w2 + '5.0],' + w3 + '[1,' + w1 + '2,' + w2 + '7.0]],'
           '"rows": [{"id": "a", "metadata": null},{"id": "b", "metadata": null}],'
           '"columns": [{"id": "x", "metadata": null},{"id": "y", "metadata": null},{"id": "z", "metadata": null}]}')
    out = direct_slice_data(doc, [1], 'sample')
    d = json.loads('{' + out + '}')
    return d['data'] == [[0, 0, 5.0]] and d['shape'] == [2, 1]
