"""Prototype: load real biom.table, rebind its numpy/scipy/kernel globals to the models."""
import sys, types, numpy as _np
from . import core, spmodel, pyx2py

class NPProxy:
    """real numpy, except float array constructors yield object arrays"""
    def __getattr__(self, k): return getattr(_np, k)
    @staticmethod
    def _dt(dtype):
        if dtype is None or dtype is float or dtype == 'float' or dtype == _np.float64: return object
        try:
            if _np.dtype(dtype).kind == 'f': return object
        except TypeError: pass
        return dtype
    def zeros(self, shape, dtype=None):
        a = _np.zeros(shape, dtype=self._dt(dtype))
        if a.dtype == object: a[...] = 0.0
        return a
    def empty(self, shape, dtype=None):
        a = _np.empty(shape, dtype=self._dt(dtype))
        if a.dtype == object: a[...] = 0.0
        return a
    def ones(self, shape, dtype=None): return _np.ones(shape, dtype=self._dt(dtype))
    def ceil(self, a): return a   # prototype: integer data assumed
    def any(self, a, *k, **kw):
        for v in _np.asarray(a, dtype=object).flat:
            if v != 0: return True
        return False

npx = NPProxy()

class _FloatMeta(type):
    def __instancecheck__(cls, x): return isinstance(x, (float, core.SNum))
class sfloat(metaclass=_FloatMeta):
    def __new__(cls, x=0.0):
        if isinstance(x, core.SNum): return x
        if isinstance(x, _np.ndarray) and x.dtype == object: return x.item() if isinstance(x.item(), core.SNum) else float(x.item())
        return float(x)

def load():
    import biom.table as T
    T.np = npx
    T.zeros = npx.zeros
    for nm in ('coo_matrix', 'csc_matrix', 'csr_matrix', 'isspmatrix', 'vstack', 'hstack'):
        setattr(T, nm, getattr(spmodel, nm))
    T.float = sfloat
    ns = {}
    for k in ('_filter', '_transform', '_subsample'):
        src = pyx2py.translate(open(f'/repo/biom/{k}.pyx').read())
        mod = types.ModuleType('sx_' + k)
        mod.__dict__['np'] = npx
        exec(compile(src, f'/repo/biom/{k}.pyx', 'exec'), mod.__dict__)
        mod.__dict__['np'] = npx
        mod.__dict__['bool'] = sbool
        ns[k] = mod
    T._filter = ns['_filter']._filter
    T._transform = ns['_transform']._transform
    T.subsample = ns['_subsample'].subsample
    return T, ns

def sbool(x=False):
    if isinstance(x, core.SBool): return x
    if isinstance(x, core.SNum): return x != 0
    return bool(x)
