from typing import List
from biom.parse import MetadataMap

def _ok(s: str) -> bool:
    return (0 < len(s) <= 3 and chr(9) not in s and chr(10) not in s and chr(13) not in s and '"' not in s
            and '#' not in s and s == s.strip())

def mapping_rows(id1: str, id2: str, v1: str, v2: str, cpos: int) -> bool:
    """
    pre: _ok(id1) and _ok(id2) and _ok(v1) and _ok(v2) and id1 != id2 and 0 <= cpos <= 2
    post: _
    """
    lines = ['#SampleID\tcolA\tcolB\n', id1 + '\t' + v1 + '\tq\n', id2 + '\t' + v2 + '\n']
    lines.insert(cpos + 1, '# a comment\n')
    m = MetadataMap.from_file(lines)
    return dict(m) == {id1: {'colA': v1, 'colB': 'q'}, id2: {'colA': v2, 'colB': ''}}
