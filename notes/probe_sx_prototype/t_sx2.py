import sys, time, itertools
sys.path.insert(0, '/tmp/probe')
import numpy as np, z3
from sx import core, spmodel, env
exec(open('/tmp/probe/t_sx1.py').read().split("N, M = 2, 3")[0].split("T, KNS = env.load()")[1], globals()) if False else None
T, KNS = env.load(); Table = T.Table
from t_sx1_lib import sym_table, run
Z = core._z

def chk_merge(ex):
    n, m = 2, 2
    a_mat, a_d = sym_table(ex, n, m, 'a', fmts=('csr','csc'), orders=False)
    b_mat, b_d = sym_table(ex, n, m, 'b', fmts=('csr',), orders=False)
    a_obs, a_s = ['o1', 'o2'], ['s1', 's2']
    b_obs = [['o1', 'o2'], ['o2', 'o1'], ['o2', 'o3'], ['o3', 'o4']][ex.choice(4)]
    b_s = [['s1', 's2'], ['s2', 's3'], ['s3', 's1']][ex.choice(3)]
    withmd = ex.choice(2)
    a = Table(a_mat, a_obs, a_s, sample_metadata=[{'k': 1}, {'k': 2}] if withmd else None)
    b = Table(b_mat, b_obs, b_s)
    r = a.merge(b)
    exp_obs = set(a_obs) | set(b_obs); exp_s = set(a_s) | set(b_s)
    assert set(r.ids('observation')) == exp_obs and set(r.ids()) == exp_s, (r.ids('observation'), r.ids())
    out = r.matrix_data.toarray()
    claims = []
    for i, o in enumerate(r.ids('observation')):
        for j, s in enumerate(r.ids()):
            e = 0.0
            if o in a_obs and s in a_s: e = e + a_d[a_obs.index(o)][a_s.index(s)]
            if o in b_obs and s in b_s: e = e + b_d[b_obs.index(o)][b_s.index(s)]
            claims.append(Z(out[i, j]) == Z(e))
    mdl = ex.prove(z3.And(*claims))
    return None if mdl is None else ('merge', str(mdl))

def chk_norm(ex):
    n, m = 2, 3
    mat, d = sym_table(ex, n, m, 'v')
    for row in d:
        for v in row:
            if isinstance(v, core.SNum): ex.assume(v >= 0)
    t = Table(mat, ['o1', 'o2'], ['s1', 's2', 's3'])
    axis = ['sample', 'observation'][ex.choice(2)]
    r = t.norm(axis=axis, inplace=False)
    out = r.matrix_data.toarray()
    claims = []
    for i in range(n):
        for j in range(m):
            tot = sum((d[i2][j] for i2 in range(n)), 0.0) if axis == 'sample' else sum((d[i][j2] for j2 in range(m)), 0.0)
            # out*tot == d  (when tot>0)
            claims.append(z3.Implies(Z(tot) > 0, Z(out[i, j]) == core._real(Z(d[i][j])) / core._real(Z(tot))))
    mdl = ex.prove(z3.And(*claims))
    # input untouched
    back = t.matrix_data.toarray()
    mdl2 = ex.prove(z3.And(*[Z(back[i, j]) == Z(d[i][j]) for i in range(n) for j in range(m)]))
    return None if (mdl is None and mdl2 is None) else ('norm', axis, str(mdl), str(mdl2))

def chk_concat(ex):
    n, m = 2, 2
    a_mat, a_d = sym_table(ex, n, m, 'a', fmts=('csr',))
    b_mat, b_d = sym_table(ex, n, m, 'b', fmts=('csr','csc'))
    a_obs, a_s = ['o1', 'o2'], ['s1', 's2']
    b_obs = [['o1', 'o2'], ['o2', 'o1'], ['o2', 'o3'], ['o3', 'o4']][ex.choice(4)]
    b_s = ['s3', 's4']
    a = Table(a_mat, a_obs, a_s); b = Table(b_mat, b_obs, b_s)
    r = a.concat([b], axis='sample')
    assert list(r.ids()) == a_s + b_s
    out = r.matrix_data.toarray(); claims = []
    for i, o in enumerate(r.ids('observation')):
        for j, s in enumerate(r.ids()):
            e = 0.0
            if s in a_s and o in a_obs: e = a_d[a_obs.index(o)][a_s.index(s)]
            if s in b_s and o in b_obs: e = b_d[b_obs.index(o)][b_s.index(s)]
            claims.append(Z(out[i, j]) == Z(e))
    mdl = ex.prove(z3.And(*claims))
    return None if mdl is None else ('concat', str(mdl))

def chk_collapse(ex):
    n, m = 2, 3
    mat, d = sym_table(ex, n, m, 'v', fmts=('csr', 'csc'))
    t = Table(mat, ['o1', 'o2'], ['s1', 's2', 's3'])
    lab = [('x', 'x', 'y'), ('x', 'y', 'x'), ('x', 'x', 'x'), ('x', 'y', 'z')][ex.choice(4)]
    mp = dict(zip(['s1', 's2', 's3'], lab))
    r = t.collapse(lambda i, md: mp[i], norm=False, axis='sample')
    out = r.matrix_data.toarray(); claims = []
    for j, g in enumerate(r.ids()):
        for i in range(n):
            e = sum((d[i][k] for k in range(m) if lab[k] == g), 0.0)
            claims.append(Z(out[i, j]) == Z(e))
    mdl = ex.prove(z3.And(*claims))
    return None if mdl is None else ('collapse', lab, str(mdl))

which = sys.argv[1]
run({'merge': chk_merge, 'norm': chk_norm, 'concat': chk_concat, 'collapse': chk_collapse}[which], which)
