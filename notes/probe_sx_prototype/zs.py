import z3, time
WS = [' ', '\t', '\n', '\r', '\x0b', '\x0c', '\x1c', '\x1d', '\x1e', '\x1f', '\x85', '\xa0', ' ', ' ', ' ', ' ', ' ', '　'] + [chr(c) for c in range(0x2000, 0x200b)]
def cls(chars): return z3.Union(*[z3.Re(z3.StringVal(c)) for c in chars]) if len(chars) > 1 else z3.Re(z3.StringVal(chars[0]))
ws = cls(WS)
anyc = z3.AllChar(z3.ReSort(z3.StringSort()))
notws = z3.Diff(anyc, ws) if hasattr(z3, 'Diff') else z3.Intersect(anyc, z3.Complement(ws))
no_tnr = z3.Intersect(anyc, z3.Complement(cls(['\t', '\n', '\r'])))
first = z3.Intersect(notws, z3.Complement(z3.Re(z3.StringVal('#'))))
# domain: first . (no_tnr)* . notws  | single first char
domain = z3.Union(first, z3.Concat(first, z3.Star(no_tnr), notws))
s = z3.String('s')
def q(label, *cs):
    sol = z3.Solver(); sol.set('timeout', 20000)
    sol.add(z3.InRe(s, domain), z3.Length(s) <= 6, *cs)
    t = time.time(); r = sol.check(); print(label, r, round(time.time() - t, 2), sol.model()[s] if r == z3.sat else '')
q('contains tab', z3.Contains(s, z3.StringVal('\t')))
q('starts #', z3.PrefixOf(z3.StringVal('#'), s))
q('contains space', z3.Contains(s, z3.StringVal(' ')))
q('leading ws', z3.InRe(s, z3.Concat(ws, z3.Star(anyc))))
q('trailing ws', z3.InRe(s, z3.Concat(z3.Star(anyc), ws)))
q('empty', z3.Length(s) == 0)
q('contains quote', z3.Contains(s, z3.StringVal('"')))
# float-literal?  simplified python float regex
dig = z3.Range('0', '9')
num = z3.Concat(z3.Option(cls(['+', '-'])), z3.Union(z3.Concat(z3.Plus(dig), z3.Option(z3.Concat(z3.Re(z3.StringVal('.')), z3.Star(dig)))), z3.Concat(z3.Re(z3.StringVal('.')), z3.Plus(dig))), z3.Option(z3.Concat(cls(['e', 'E']), z3.Option(cls(['+', '-'])), z3.Plus(dig))))
q('is number', z3.InRe(s, num))
t = z3.String('t')
sol = z3.Solver(); sol.add(z3.InRe(s, domain), z3.InRe(t, domain), z3.Length(s) <= 6, z3.Length(t) <= 6, s != t, z3.Concat(s, z3.StringVal('\t'), t) == z3.Concat(t, z3.StringVal('\t'), s))
tt = time.time(); print('concat eq', sol.check(), round(time.time() - tt, 2))
