import numpy as np
from biom import Table
t = Table(np.array([[5,0,1],[1,0,3]]), ['a','b'], ['x','y','z'])
for kw in (dict(with_replacement=True), dict(), dict(by_id=True)):
    try:
        r = t.subsample(2, seed=3, **kw); print(kw, r.ids(), r.ids('observation'), r.matrix_data.toarray().tolist())
    except Exception as e: print(kw, 'ERR', type(e).__name__, e)
t2 = Table(np.array([[1,-1],[0,2.]]), ['a','b'], ['x','y'])
print('remove_empty', t2.remove_empty(inplace=False).ids('observation'))
rng = np.random.default_rng(1)
try: print(rng.multinomial(3, np.array([])))
except Exception as e: print('multinomial empty', type(e).__name__, e)
# fractional counts
t3 = Table(np.array([[0.5,0.5],[0.2,2.]]), ['a','b'], ['x','y'])
print(t3.subsample(1, with_replacement=True, seed=1).matrix_data.toarray().tolist())
