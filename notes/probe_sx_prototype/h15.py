import copy
from biom.cli.table_validator import TableValidator

BASE = {"id": None, "format": "Biological Observation Matrix 1.0.0", "format_url": "http://biom-format.org",
        "type": "OTU table", "generated_by": "x", "date": "2011-12-19T19:00:00", "matrix_type": "sparse",
        "matrix_element_type": "float", "shape": [2, 3],
        "data": [[0, 1, 5.0], [1, 2, 7.0]],
        "rows": [{"id": "a", "metadata": None}, {"id": "b", "metadata": None}],
        "columns": [{"id": "x", "metadata": None}, {"id": "y", "metadata": None}, {"id": "z", "metadata": None}]}

def coord_in_range(x: int, y: int, n: int, m: int) -> bool:
    """
    pre: True
    post: _
    """
    doc = copy.deepcopy(BASE)
    doc['shape'] = [n, m]
    doc['data'].append([x, y, 1.0])
    try:
        res = TableValidator()._validate_json(table=doc, format_version='1.0.0')
    except Exception:
        return True
    if res['valid_table']:
        return n == 2 and m == 3 and 0 <= x < 2 and 0 <= y < 3
    return True

def _skip_dup_ids(i: int, j: int, ax: int) -> bool:
    """
    pre: 0 <= i < 3 and 0 <= j < 3 and i != j and 0 <= ax < 2
    post: _
    """
    doc = copy.deepcopy(BASE)
    key = ['rows', 'columns'][ax]
    if i < len(doc[key]) and j < len(doc[key]):
        doc[key][i]['id'] = doc[key][j]['id']
        res = TableValidator()._validate_json(table=doc, format_version='1.0.0')
        return not res['valid_table']
    return True
