"""Prototype in-memory model of the h5py subset biom uses: groups, datasets, attrs."""
import numpy as np
class Attrs(dict):
    pass
class Dataset:
    def __init__(self, data, shape, dtype):
        self.attrs = Attrs(); self.dtype = dtype
        if isinstance(data, np.ndarray): arr = data.copy()
        else:
            arr = np.empty(len(data), dtype=object)
            for i, v in enumerate(data): arr[i] = v
        if isinstance(data, (str, bytes)):  # scalar payload into shape (1,)
            arr = np.empty(1, dtype=object); arr[0] = data.encode('utf8') if isinstance(data, str) else data
        assert tuple(arr.shape) == tuple(shape), (arr.shape, shape)
        self._a = arr
    @property
    def shape(self): return self._a.shape
    @property
    def size(self): return self._a.size
    def __len__(self): return len(self._a)
    def __getitem__(self, k): return self._a[k].copy() if isinstance(k, slice) else self._a[k]
    def __iter__(self): return iter(self._a)
class Group:
    def __init__(self): self._c = {}; self.attrs = Attrs()
    def _walk(self, path, create=False):
        node = self; parts = [p for p in path.split('/') if p]
        for p in parts[:-1]:
            if p not in node._c:
                if not create: raise KeyError(path)
                node._c[p] = Group()
            node = node._c[p]
        return node, parts[-1]
    def create_group(self, name):
        node, leaf = self._walk(name, True)
        if leaf in node._c: raise ValueError("exists")
        node._c[leaf] = Group(); return node._c[leaf]
    def create_dataset(self, name, shape=None, dtype=None, data=None, compression=None):
        node, leaf = self._walk(name, True)
        if leaf in node._c: raise ValueError("exists")
        if shape is None: shape = np.shape(data)
        ds = Dataset(data, shape, dtype); node._c[leaf] = ds; return ds
    def __getitem__(self, path):
        node, leaf = self._walk(path); return node._c[leaf]
    def __contains__(self, path):
        try: self[path]; return True
        except KeyError: return False
    def get(self, path, default=None):
        try: return self[path]
        except KeyError: return default
    def items(self): return self._c.items()
File = Group
