import sys, types, builtins
sys.path.insert(0, '/tmp/probe2'); sys.path.insert(0, '/repo')
import numpy as np, z3
from sx import core, spmodel, env, text, instr, text2
import biom
src = open('/repo/biom/table.py').read()
if len(sys.argv) > 2 and sys.argv[2] == 'mut':   # a parser mutant: split header on blanks
    src = src.replace("header = line.strip().split(delim)[1:]", "header = line.strip().split(' ')[1:]")
mod = types.ModuleType('biom.table'); mod.__package__ = 'biom'; mod.__file__ = '/repo/biom/table.py'
g = mod.__dict__
g.update(__sx_mod__=text.sx_mod, __sx_join__=text.sx_join, __sx_fstr__=text.sx_fstr, __sx_format__=text.sx_format)
def sfloat(x=0.0):
    if isinstance(x, core.SNum): return x
    if isinstance(x, text.SText):
        if len(x.parts) == 1 and not isinstance(x.parts[0], str):
            h = x.parts[0]
            if h.kind == 'num': return h.term
            # raw hole: is it a float literal? decide by regex
            dig = z3.Range('0', '9'); C = text2.cls
            num = z3.Concat(z3.Option(C(['+', '-'])), z3.Union(z3.Concat(z3.Plus(dig), z3.Option(z3.Concat(z3.Re(z3.StringVal('.')), z3.Star(dig)))), z3.Concat(z3.Re(z3.StringVal('.')), z3.Plus(dig))), z3.Option(z3.Concat(C(['e', 'E']), z3.Option(C(['+', '-'])), z3.Plus(dig))))
            special = z3.Union(*[z3.Re(z3.StringVal(w)) for w in ('nan', 'inf', 'infinity')])
            if core.EX.branch(z3.InRe(h.term, z3.Union(num, special))): raise text2.Unsupported('numeric-looking raw hole')
            raise ValueError('could not convert string to float')
        raise ValueError('could not convert')
    return float(x)
g['float'] = sfloat
exec(instr.instrument(src, '/repo/biom/table.py'), g)
Table = g['Table']
from t_sx1_lib import run
ANY = text2.ANY; C = text2.cls
notws = z3.Intersect(ANY, z3.Complement(text2.WSRE))
no_tnr = z3.Intersect(ANY, z3.Complement(C(['\t', '\n', '\r'])))
first = z3.Intersect(notws, z3.Complement(z3.Re(z3.StringVal('#'))))
DOMAIN = z3.Union(first, z3.Concat(first, z3.Star(no_tnr), notws))
def chk(ex):
    o = [text2.raw(f'o{k}', ex, DOMAIN) for k in range(2)]
    s_ = [text2.raw(f's{k}', ex, DOMAIN) for k in range(2)]
    v = [[core.SNum(z3.Real(f'v{i}{j}')) for j in range(2)] for i in range(2)]
    num = lambda x: text.SText([text.Hole('num', 'str', x)])
    lines = ['# Constructed from biom file', text.mk(['#OTU ID\t', s_[0], '\t', s_[1]])] + [text.mk([o[i], '\t', num(v[i][0]), '\t', num(v[i][1])]) for i in range(2)]
    try:
        samp, obs, data, md, mdn = Table._extract_data_from_tsv(lines)
    except text2.Unsupported as e:
        m = ex.solver.model() if ex._check() == z3.sat else None
        return ('unsupported-on-domain-input', str(e), str(m))
    ok = len(samp) == 2 and samp[0] is s_[0] or (isinstance(samp[0], text.SText) and samp[0].parts == s_[0].parts)
    if not (len(samp) == 2 and all(isinstance(a, text.SText) and a.parts == b.parts for a, b in zip(samp, s_)) and len(obs) == 2 and all(isinstance(a, text.SText) and a.parts == b.parts for a, b in zip(obs, o)) and md is None):
        return ('ids', samp, obs, md)
    exp = {(i, j): v[i][j] for i in range(2) for j in range(2)}
    got = {(r, c): val for r, c, val in data}
    claims = [core._z(got.get(k, 0.0)) == core._z(exp[k]) for k in exp]
    m = ex.prove(z3.And(*claims))
    return None if m is None else ('values', str(m))
run(chk, 'tsv-parse')
