import sys, time, itertools, types, datetime
sys.path.insert(0, '/tmp/probe')
import numpy as np, z3
from sx import core, spmodel, env, h5model
T, KNS = env.load(); Table = T.Table
from t_sx1_lib import sym_table, run
Z = core._z
import h5py as real_h5py
shim = types.ModuleType('h5py'); shim.__dict__.update(real_h5py.__dict__); shim.Group = h5model.Group; shim.File = h5model.Group
sys.modules['h5py'] = shim

def chk_hdf5(ex):
    n, m = 2, 3
    mat, d = sym_table(ex, n, m, 'v', nz=False)
    t = Table(mat, ['o1', 'o2'], ['s1', 's2', 's3'], observation_metadata=[{'taxonomy': ['a', 'b'], 'x': 'u'}, {'taxonomy': ['a'], 'x': 'v'}])
    g = h5model.Group()
    t.to_hdf5(g, 'gen', creation_date=datetime.datetime(2020, 1, 1))
    # spec decode of both views
    nnz = g.attrs['nnz']
    for ax, maj, mino in (('observation', n, m), ('sample', m, n)):
        ip = list(g[ax + '/matrix/indptr'][:]); ix = list(g[ax + '/matrix/indices'][:]); dt = list(g[ax + '/matrix/data'][:])
        assert len(ip) == maj + 1 and ip[0] == 0 and ip[-1] == nnz == len(ix) == len(dt), (ax, ip, nnz)
        assert all(ip[k] <= ip[k + 1] for k in range(maj)) and all(0 <= x < mino for x in ix)
        dense = [[0.0] * m for _ in range(n)]
        for k in range(maj):
            for p in range(ip[k], ip[k + 1]):
                r, c = (k, ix[p]) if ax == 'observation' else (ix[p], k)
                dense[r][c] = dense[r][c] + dt[p]
        claims = [Z(dense[i][j]) == Z(d[i][j]) for i in range(n) for j in range(m)] + [Z(v) != 0 for v in dt]
        mdl = ex.prove(z3.And(*claims)) if claims else None
        if mdl is not None: return ('hdf5 view', ax, str(mdl))
    r = Table.from_hdf5(g)
    out = r.matrix_data.toarray()
    mdl = ex.prove(z3.And(*[Z(out[i, j]) == Z(d[i][j]) for i in range(n) for j in range(m)]))
    if mdl is not None: return ('roundtrip', str(mdl))
    assert list(r.ids()) == ['s1', 's2', 's3'] and r.metadata('o2', 'observation')['taxonomy'] == ['a'], r.metadata(axis='observation')
    # subset read
    sub = Table.from_hdf5(g, ids=['s3', 's1'], axis='sample')
    return None
run(chk_hdf5, 'hdf5')
