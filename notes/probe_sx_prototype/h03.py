from typing import List, Tuple
from biom.table import Table

def _ok_id(s: str) -> bool:
    return (len(s) > 0 and chr(9) not in s and chr(10) not in s and chr(13) not in s
            and not s.startswith('#') and s == s.strip())

def tsv_ids_roundtrip(o1: str, o2: str, s1: str, s2: str) -> bool:
    """
    pre: len(o1) <= 3 and len(o2) <= 3 and len(s1) <= 3 and len(s2) <= 3
    pre: _ok_id(o1) and _ok_id(o2) and _ok_id(s1) and _ok_id(s2)
    pre: o1 != o2 and s1 != s2
    post: _
    """
    lines = ['# Constructed from biom file', '#OTU ID\t' + s1 + '\t' + s2,
             o1 + '\t1.0\t0.0', o2 + '\t2.5e-07\t3.0']
    samp, obs, data, md, mdname = Table._extract_data_from_tsv(lines)
    return samp == [s1, s2] and obs == [o1, o2] and data == [[0, 0, 1.0], [1, 0, 2.5e-07], [1, 1, 3.0]] and md is None

def tsv_ids_roundtrip_nopre(o1: str, s1: str) -> bool:
    """
    pre: 0 < len(o1) <= 3 and 0 < len(s1) <= 3
    post: _
    """
    lines = ['# Constructed from biom file', '#OTU ID\t' + s1, o1 + '\t1.0']
    samp, obs, data, md, mdname = Table._extract_data_from_tsv(lines)
    return samp == [s1] and obs == [o1]
