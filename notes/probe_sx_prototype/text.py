"""Prototype symbolic text: sequence of literal chunks and holes."""
import re
from . import core
class Hole:
    def __init__(self, kind, spec, term): self.kind, self.spec, self.term = kind, spec, term
    def __repr__(self): return f"<{self.kind}:{self.spec}:{self.term}>"
class SText:
    def __init__(self, parts):
        out = []
        for p in parts:
            if isinstance(p, SText): ps = p.parts
            else: ps = [p]
            for q in ps:
                if isinstance(q, str):
                    if not q: continue
                    if out and isinstance(out[-1], str): out[-1] += q
                    else: out.append(q)
                else: out.append(q)
        self.parts = out
    def __add__(self, o): return mk([self, o])
    def __radd__(self, o): return mk([o, self])
    def __repr__(self): return 'SText(' + ''.join(p if isinstance(p, str) else repr(p) for p in self.parts) + ')'
    def __bool__(self): return True
def mk(parts):
    t = SText(parts)
    if all(isinstance(p, str) for p in t.parts): return ''.join(t.parts)
    return t
def issym(x): return isinstance(x, (core.SNum, SText, Hole))
def to_text(x, spec='s'):
    if isinstance(x, SText): return x
    if isinstance(x, core.SNum): return SText([Hole('num', spec, x)])
    if isinstance(x, Hole): return SText([x])
    return None
_FMT = re.compile(r'%(?:\.(\d+))?([sdfrg%])')
def sx_mod(fmt, args):
    if not isinstance(fmt, str): return fmt % args
    tup = args if isinstance(args, tuple) else (args,)
    if not any(issym(a) for a in tup): return fmt % args
    out, pos, k = [], 0, 0
    for m in _FMT.finditer(fmt):
        out.append(fmt[pos:m.start()]); pos = m.end()
        if m.group(2) == '%': out.append('%'); continue
        a = tup[k]; k += 1
        spec = m.group(0)
        t = to_text(a, spec)
        out.append(t if t is not None else (spec % a))
    out.append(fmt[pos:])
    assert k == len(tup)
    return mk(out)
def sx_join(sep, it):
    items = list(it)
    if isinstance(sep, str) and all(isinstance(i, str) for i in items): return sep.join(items)
    out = []
    for n, i in enumerate(items):
        if n: out.append(sep)
        out.append(i)
    return mk(out)
def sx_fstr(*parts): return mk([p if isinstance(p, (str, SText)) else (to_text(p) or format(p)) for p in parts])
def sx_format(fmt, *args):
    if not any(issym(a) for a in args): return fmt.format(*args)
    out = []; k = 0
    for piece in re.split(r'(\{\{|\}\}|\{\})', fmt):
        if piece == '{{': out.append('{')
        elif piece == '}}': out.append('}')
        elif piece == '{}': out.append(to_text(args[k]) or format(args[k])); k += 1
        else: out.append(piece)
    return mk(out)
