"""C04 Written HDF5 files conform to the BIOM 2.1 layout; both matrix views agree."""
import datetime
from sx.harness import *      # noqa
from checks.h5spec import new_store, decode, elem_kind

PROP = 'C04'
DATE = datetime.datetime(2021, 3, 4, 5, 6, 7)


def _txt(x):
    return x.decode('utf8') if isinstance(x, bytes) else str(x)


def _check_written(t, a, sig, **kw):
    store = new_store()
    _, e = call(lambda: t.to_hdf5(store, 'verif-c04', creation_date=DATE, **kw))
    if e is not None:
        fail('write:raised', f"{type(e).__name__}: {e}"[:160], **sig)
        return None
    d = decode('layout', store, **sig)
    if d is None:
        return None
    nr, nc = len(a.obs_ids), len(a.samp_ids)
    if d['shape'] != (nr, nc):
        fail('layout:shape', f"{d['shape']} vs {(nr, nc)}", **sig)
        return None
    true_nnz = sum(1 for r in a.dense for x in r if is_sym(x) or x != 0)
    if d['nnz'] != true_nnz:
        fail('layout:nnz', f"attribute nnz={d['nnz']}, the table has {true_nnz} non-zero cells", **sig)
    if d['observation_ids'] != a.obs_ids or d['sample_ids'] != a.samp_ids:
        fail('layout:ids-order', f"{d['observation_ids']} / {d['sample_ids']}", **sig)
    prove('views:csr-is-the-table', cells_equal(d['csr_dense'], a.dense), **sig)
    prove('views:csc-is-the-table', cells_equal(d['csc_dense'], a.dense), **sig)
    prove('views:agree', cells_equal(d['csr_dense'], d['csc_dense']), **sig)
    for ax, md, n in (('observation', a.obs_md, nr), ('sample', a.samp_md, nc)):
        got = d[ax + '_md']
        cats = sorted(md[0]) if md else []
        if n and sorted(got[0]) != cats:
            fail('layout:metadata-categories', f"{ax}: {sorted(got[0])} vs {cats}", **sig)
        elif n and md:
            # a reader following only the specification recovers every per-id entry with its element kind: text as text, numbers
            # as numbers, hierarchical lists as the row of their (non-empty) levels
            for k in range(n):
                for cat, want in md[k].items():
                    have = got[k][cat]
                    if isinstance(want, (list, tuple)):
                        ok = [_txt(x) for x in list(have) if _txt(x) != ''] == [str(x) for x in want]
                    elif isinstance(want, str):
                        ok = isinstance(have, (bytes, str)) and _txt(have) == want
                    elif isinstance(want, bool) or isinstance(want, (int, float)):
                        ok = not isinstance(have, (bytes, str)) and float(have) == float(want)
                    else:
                        ok = True
                    if not ok:
                        fail('layout:metadata-entry', f"{ax} #{k} {cat}: {have!r} for {want!r}", **sig)
    if d['attrs']['type'] not in ('OTU table', '', b'OTU table', b''):
        fail('layout:type', str(d['attrs']['type']), **sig)
    return d


def h_layout(nr, nc, zeros):
    md = pick(['none', 'both'], 'md')
    ids_kw = {}
    if flag('non-ascii-ids'):       # byte length differs from character count; the longest id in characters is not the longest in bytes
        ids_kw = dict(obs_ids=['\u00e9\u00e9\u00e9', 'abcde', 'xy'][:nr], samp_ids=['caf\u00e91', 'caf\u00e92', '\u65e5\u672c'][:nc])
    t, a = make_table(nr, nc, md=md, zeros=zeros, type_=pick(['OTU table', None], 'type'), late_zero=True, **ids_kw)
    if md == 'both' and flag('category-names-with-slashes'):
        for ax in ('observation', 'sample'):
            t.add_metadata({i: {'barcode/seq': 'ACGT', 'flow mL/min/m2': 1.5 + k} for k, i in enumerate(a.ids(ax))}, axis=ax)
            for k in range(len(a.ids(ax))):
                a.md(ax)[k].update({'barcode/seq': 'ACGT', 'flow mL/min/m2': 1.5 + k})
    accessed = pick(['fresh', 'nnz-read', 'written-before'], 'history')
    if accessed == 'nnz-read':
        t.nnz
    elif accessed == 'written-before':
        t.to_hdf5(new_store(), 'earlier', creation_date=DATE)
    sig = dict(layout=a.info['layout'], explicit_zero=int(a.info['explicit_zero']), history=accessed)
    _check_written(t, a, sig, compress=flag('compress'))
    same_table('write:table-unchanged', observe(t), a, **sig)


def h_after_history(nr, nc, hist):
    t, a = make_table(nr, nc, md='none', zeros=1, type_='OTU table', unsorted=False, layouts=('csr',))
    t, a = apply_history(t, a, hist)
    _check_written(t, a, dict(history=hist))


def h_empty_axes(kind):
    import numpy as np
    b = B()
    if kind == '0xM':
        t = b.Table(np.zeros((0, 2)), [], ['S2', 'S10'])
        a = ATM([], ['S2', 'S10'], [])
    elif kind == 'Nx0':
        t = b.Table(np.zeros((2, 0)), ['b10', 'b9'], [])
        a = ATM(['b10', 'b9'], [], [[], []])
    elif kind == 'filtered-to-Nx0':
        t, a = make_table(2, 2, md=pick(['none', 'both'], 'md'), zeros=0, unsorted=False)
        t = t.filter([], axis='sample', inplace=False)
        a = a.select('sample', [])
    elif kind == 'filtered-to-0xM':
        t, a = make_table(2, 2, md=pick(['none', 'both'], 'md'), zeros=0, unsorted=False)
        t = t.filter(lambda v, i, m: False, axis='observation', inplace=False)
        a = a.select('observation', [])
    elif kind == 'all-zero':
        t = b.Table(np.zeros((2, 3)), ['b10', 'b9'], ['S2', 'S10', 'z'])
        a = ATM(['b10', 'b9'], ['S2', 'S10', 'z'], [[0.0] * 3, [0.0] * 3])
    elif kind == '0x0':
        t = b.Table([], [], [])
        a = ATM([], [], [])
    _check_written(t, a, dict(kind=kind))


def h_after_load(nr, nc, src):
    """the table that gets written was itself produced by a reader (what `biom convert --to-hdf5` does)"""
    from checks.ops import load_via
    t0, a = make_table(nr, nc, md=pick(['none', 'both'], 'md'), zeros=0, type_='OTU table', unsorted=False, layouts=('csr',))
    sig = dict(source=src)
    t, e, a = load_via(src, t0, a)
    if e is not None:
        fail('after-load:read-raised', f"{type(e).__name__}: {e}"[:160], **sig)
        return
    step = pick(['none', 'filter-inplace', 'transform-inplace'], 'then')
    if step == 'filter-inplace':
        t.filter(lambda v, i, m: True, axis='sample')
    elif step == 'transform-inplace':
        t.transform(lambda d, i, m: d, axis='observation')
    _check_written(t, a, dict(sig, then=step))


HARNESSES = {'after_load': h_after_load, 'layout': h_layout, 'after_history': h_after_history, 'empty_axes': h_empty_axes}


def jobs(tier):
    out = []
    for nr, nc in ([(2, 2), (2, 3)] if tier == 'quick' else [(2, 2), (2, 3), (3, 2), (3, 3)]):
        out.append(('layout', (nr, nc, (1 if tier == 'quick' else 2) if nr * nc <= 6 else 0)))
        for h in HISTORIES:
            if h != 'none':
                out.append(('after_history', (nr, nc, h)))
    from checks.ops import LOAD_ORIGINS
    for src in LOAD_ORIGINS:
        out.append(('after_load', (2, 2, src)))
    for k in ('0xM', 'Nx0', 'filtered-to-Nx0', 'filtered-to-0xM', 'all-zero', '0x0'):
        out.append(('empty_axes', (k,)))
    return out


OPTS = {'quick': {'time_budget': 70}, 'thorough': {'time_budget': 900}}

META = {
    'explanation': "C04: Table.to_hdf5 writes into an in-memory model of h5py; an independent reader written from biom-2.1.rst checks required "
                   "attributes / groups / datasets, declared element types, shape, nnz = number of non-zero cells, ids and metadata entry counts in axis "
                   "order, indptr length / monotonicity / end, index ranges, no stored zeros (solver), and decodes the CSR and the CSC view: both are proved "
                   "equal to the table's matrix term by term -- for every start representation (explicit zeros, unsorted indices, CSR/CSC), after prior "
                   "histories (including an earlier write and a prior nnz read), for empty-axis and all-zero tables, and for tables that were themselves produced by a reader (from_json, parse_biom_table on JSON / TSV / HDF5, from_tsv, from_hdf5 -- what biom convert writes), optionally modified in place.",
    'encoded': {'biom/table.py': ['to_hdf5', 'nnz', 'general_formatter', 'vlen_list_of_str_formatter', 'group_metadata', 'ids', 'metadata', 'from_json', 'from_tsv', 'from_hdf5'],
                'biom/parse.py': ['parse_biom_table']},
    'bounds': {'quick': {'shapes': '2x2, 2x3 (<=1 explicit zero); 0xM, Nx0, 0x0, all-zero'}, 'thorough': {'shapes': 'up to 3x3, <=2 explicit zeros'}},
    'outside': ['on-disk HDF5 types as materialised by the real library, compression filters (the real h5py is only used in replays)',
                'metadata values beyond the menus used here (text, int, float, hierarchical list): C01'],
    'assumptions': ['h5py model: create_dataset checks shape against payload and applies the declared dtype (validated against real h5py each run)'],
}
