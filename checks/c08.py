"""C08 Filtering keeps exactly the selected IDs, intact and in order."""
import itertools
from sx.harness import *      # noqa

PROP = 'C08'
AX = ('sample', 'observation')


def _subsets(n):
    return [tuple(k for k in range(n) if mask >> k & 1) for mask in range(1 << n)]


def _state(nr, nc, zeros=1, md=None, **kw):
    md = md or pick(['none', 'both'], 'md')
    return make_table(nr, nc, md=md, zeros=zeros, type_='OTU table', **kw)


def h_filter_ids(nr, nc, axis, invert, inplace, zeros=1, kinds=('list', 'reversed-tuple', 'set', 'array')):
    import numpy as np
    t, a = _state(nr, nc, zeros=zeros)
    n = nr if axis == 'observation' else nc
    subs = _subsets(n)
    sub = subs[choice(len(subs), 'subset')]
    ids = [a.ids(axis)[k] for k in sub]
    kind = pick(list(kinds), 'collection')
    coll = {'list': list(ids), 'reversed-tuple': tuple(reversed(ids)), 'set': set(ids),
            'array': np.array(ids, dtype=str) if ids else np.array([], dtype=str)}[kind]
    res = t.filter(coll, axis=axis, invert=invert, inplace=inplace)
    keep = [k for k in range(n) if (k in sub) != invert]
    exp = a.select(axis, keep)
    info = a.info
    same_table('filter-ids', observe(res), exp, type_=True, axis=axis, invert=invert, inplace=inplace)
    coherent('filter-ids:coherent', res)
    if inplace:
        if res is not t:
            fail('filter-ids:returns-self')
    else:
        same_table('filter-ids:input-unchanged', observe(t), a, type_=True, axis=axis, layout=info['layout'])
        coherent('filter-ids:input-coherent', t)
    # other axis untouched and lookups answer for the kept ids
    for k, i in enumerate(exp.ids(axis)):
        if not res.exists(i, axis=axis) or res.index(i, axis=axis) != k:
            fail('filter-ids:lookup', f"{i!r}")
    for k in range(n):
        if k not in keep and res.exists(a.ids(axis)[k], axis=axis):
            fail('filter-ids:stale-lookup', a.ids(axis)[k])


PREDS = ['by-id', 'by-md', 'sum-positive', 'first-nonzero', 'all']


def _mk_pred(kind, calls, ids, accept_ids):
    def pred(v, i, md):
        calls.append(([x for x in v], str(i), None if md is None else dict(md)))
        if kind == 'by-id':
            return str(i) in accept_ids
        if kind == 'by-md':
            return md is not None and bool(md.get('n', md.get('depth', 0)) != 0)
        if kind == 'sum-positive':
            return v.sum() > 0
        if kind == 'first-nonzero':
            return v[0] != 0
        return True
    return pred


def h_filter_pred(nr, nc, axis, zeros, kind):
    t, a = _state(nr, nc, zeros=zeros)
    n = nr if axis == 'observation' else nc
    invert = flag('invert')
    inplace = flag('inplace')
    calls = []
    accept_ids = set(a.ids(axis)[::2])
    pred = _mk_pred(kind, calls, a.ids(axis), accept_ids)
    t_before = t.copy()
    res = t.filter(pred, axis=axis, invert=invert, inplace=inplace)
    info = a.info
    sig = dict(axis=axis, unsorted=int(info['unsorted']), layout=info['layout'], explicit_zero=int(info['explicit_zero']))
    # --- call protocol: once per id, in order, true complete vector, its id, its metadata
    if [c[1] for c in calls] != a.ids(axis):
        fail('pred:call-order', f"{[c[1] for c in calls]} vs {a.ids(axis)}", **sig)
        return
    md = a.md(axis)
    for k, (vec, i, m) in enumerate(calls):
        want_md = None if md is None else md[k]
        got_md = None if m is None else {kk: vv for kk, vv in m.items()}
        if (got_md or None) != (want_md or None):
            fail('pred:call-md', f"{i}: {got_md} vs {want_md}", **sig)
    claim = and_(*[eq(x, y) for k, (vec, _, _) in enumerate(calls) for x, y in zip(vec, a.vec(axis, k))])
    if any(len(vec) != len(a.vec(axis, k)) for k, (vec, _, _) in enumerate(calls)):
        fail('pred:call-vector-length', '', **sig)
        return
    if not prove('pred:call-vector', claim, **sig):
        return
    # --- result = exactly the accepted ids (decision recomputed by the oracle on the TRUE vectors)
    calls2 = []
    oracle = _mk_pred(kind, calls2, a.ids(axis), accept_ids)
    import numpy as np
    keep = []
    for k in range(n):
        vec = a.vec(axis, k)
        arr = np.empty(len(vec), dtype=object)
        for q, x in enumerate(vec):
            arr[q] = x
        if B().mode == 'conc':
            arr = np.array([float(x) for x in vec])
        if bool(oracle(arr, a.ids(axis)[k], None if md is None else md[k])) != invert:
            keep.append(k)
    exp = a.select(axis, keep)
    same_table('pred:result', observe(res), exp, type_=True, **sig)
    coherent('pred:coherent', res)
    # --- predicate filter == id-list filter of the accepted ids
    res2 = t_before.filter([a.ids(axis)[k] for k in keep], axis=axis, inplace=False)
    same_table('pred:equals-id-list', observe(res2), observe(res), type_=True, **sig)
    if not inplace:
        same_table('pred:input-unchanged', observe(t), a, type_=True, **sig)


def h_remove_empty(nr, nc, axis, zeros=1):
    t, a = _state(nr, nc, zeros=zeros, md='both')
    inplace = flag('inplace')
    exp = a
    axes = ['sample', 'observation'] if axis == 'whole' else [axis]
    possum = True
    for ax in axes:
        n = len(exp.ids(ax))
        keep = [k for k in range(n) if any(is_sym(x) or x != 0 for x in exp.vec(ax, k))]
        # discriminator for the signature: do all non-empty vectors have a positive sum on this path?
        possum = possum and bool(and_(*[ssum(exp.vec(ax, k)) > 0 for k in keep]))
        exp = exp.select(ax, keep)
    res = t.remove_empty(axis=axis, inplace=inplace)
    got = observe(res)
    same_table('remove_empty', got, exp, type_=True, axis=axis, all_sums_positive=int(possum))
    coherent('remove_empty:coherent', res)
    if inplace and res is not t:
        fail('remove_empty:returns-self')
    if not inplace:
        same_table('remove_empty:input-unchanged', observe(t), a, type_=True)


def h_head(nr, nc):
    t, a = _state(nr, nc, zeros=0)
    n = 1 + choice(nr + 1, 'n')
    m = 1 + choice(nc + 1, 'm')
    res = t.head(n, m)
    exp = a.select('observation', list(range(min(n, nr)))).select('sample', list(range(min(m, nc))))
    same_table('head', observe(res), exp, type_=True)
    coherent('head:coherent', res)
    same_table('head:input-unchanged', observe(t), a, type_=True)
    for bad in ((0, 1), (1, 0), (-1, 2)):
        e = raises(lambda: t.head(*bad))
        if not isinstance(e, IndexError):
            fail('head:nonpositive', f"head{bad} -> {e!r}")


def h_filter_after_history(nr, nc, axis):
    """ID-list filtering, head and remove_empty after a prior operation history (stale caches / indices)"""
    t, a = make_table(nr, nc, md=pick(['none', 'both'], 'md'), zeros=0, unsorted=False, layouts=('csr',), type_='OTU table',
                      histories=[h for h in HISTORIES if h != 'none'])
    n = len(a.ids(axis))
    subs = _subsets(n)
    sub = subs[choice(len(subs), 'subset')]
    invert = flag('invert')
    hist = a.info['history']
    res = t.filter([a.ids(axis)[k] for k in sub], axis=axis, invert=invert, inplace=False)
    keep = [k for k in range(n) if (k in sub) != invert]
    same_table('history:filter-ids', observe(res), a.select(axis, keep), history=hist, axis=axis)
    coherent('history:filter-ids:coherent', res)
    hd = t.head(1, 2)
    same_table('history:head', observe(hd), a.select('observation', [0]).select('sample', list(range(min(2, len(a.samp_ids))))),
               history=hist)
    calls = []
    res2 = t.filter(_mk_pred('by-id', calls, a.ids(axis), {a.ids(axis)[k] for k in sub}), axis=axis, invert=invert, inplace=False)
    same_table('history:pred-equals-id-list', observe(res2), observe(res), history=hist, axis=axis)
    same_table('history:input-unchanged', observe(t), a, history=hist)


def h_unknown(nr, nc, axis):
    t, a = _state(nr, nc, zeros=0, unsorted=False)
    n = nr if axis == 'observation' else nc
    subs = _subsets(n)
    sub = subs[choice(len(subs), 'subset')]
    ids = [a.ids(axis)[k] for k in sub]
    pos = choice(len(ids) + 1, 'unknown-pos')
    ids.insert(pos, 'no-such-id')
    invert = flag('invert')
    inplace = flag('inplace')
    as_set = flag('as-set')
    e = raises(lambda: t.filter(set(ids) if as_set else ids, axis=axis, invert=invert, inplace=inplace))
    if e is None:
        fail('unknown-id:no-error', f"filter({ids}, invert={invert}, inplace={inplace}) succeeded", invert=invert)
    same_table('unknown-id:table-unchanged', observe(t), a, type_=True, invert=invert, inplace=inplace)
    coherent('unknown-id:coherent', t)


HARNESSES = {'after_history': h_filter_after_history, 'filter_ids': h_filter_ids, 'filter_pred': h_filter_pred, 'remove_empty': h_remove_empty, 'head': h_head,
             'unknown': h_unknown}


def jobs(tier):
    out = []
    shapes = [(2, 2), (2, 3)] if tier == 'quick' else [(2, 2), (2, 3), (3, 2), (3, 3)]
    for nr, nc in shapes:
        for ax in AX:
            for invert in (False, True):
                for inplace in (False, True):
                    if tier == 'quick' and nr * nc > 4:
                        out.append(('filter_ids', (nr, nc, ax, invert, inplace, 0, ('list', 'set'))))
                    else:
                        out.append(('filter_ids', (nr, nc, ax, invert, inplace)))
            for kind in PREDS:
                out.append(('filter_pred', (nr, nc, ax, 0, kind)))
                if nr * nc <= (4 if tier == 'quick' else 6):
                    out.append(('filter_pred', (nr, nc, ax, 1, kind)))
            out.append(('unknown', (nr, nc, ax)))
            out.append(('after_history', (nr, nc, ax)))
        for ax in AX + ('whole',):
            out.append(('remove_empty', (nr, nc, ax, 0 if (tier == 'quick' and nr * nc > 4) else 1)))
        out.append(('head', (nr, nc)))
    heavy = {'remove_empty': 0, 'filter_pred': 1, 'filter_ids': 2}
    out.sort(key=lambda j: (-j[1][0] * j[1][1], heavy.get(j[0], 5)))
    return out



# heavy shards are split into disjoint parts of their path tree (run in parallel; together exactly the unsplit exploration)
def slices(job, tier):
    h, a = job
    return 3 if h in ('filter_pred', 'unknown', 'after_history') and a[0] * a[1] >= 6 else 1

OPTS = {'quick': {'time_budget': 60}, 'thorough': {'time_budget': 1500}}

META = {
    'explanation': "C08: Table.filter (ID collections and predicates), the translated _filter.pyx kernel (_make_filter_array_general, "
                   "_remove_rows_csr), remove_empty and head run on every representation state of small tables, all subsets x invert x axis x "
                   "inplace x collection kinds; the predicate-call protocol is recorded and each vector handed to the predicate is proved equal "
                   "to the true dense vector.",
    'encoded': {'biom/table.py': ['filter', 'remove_empty', 'head', 'sum', '_axis_to_num', '_index_ids', 'copy', '__init__'],
                'biom/_filter.pyx': ['_filter', '_make_filter_array_general', '_remove_rows_csr'],
                'biom/err.py': ['errcheck', 'test']},
    'bounds': {'quick': {'shapes': '2x2, 2x3', 'explicit zeros': '<=1', 'stored index orders': 'all', 'layouts': 'CSR, CSC',
                         'values': 'unbounded reals (any sign), stored entries non-zero'},
               'thorough': {'shapes': '2x2, 2x3, 3x2, 3x3'}},
    'outside': ['int32 overflow of nnz/indptr in the kernel', 'ID text beyond the menu', 'larger tables',
                'the compiled .so is only exercised by replays (no Cython here to rebuild it): the .pyx source is what is analysed'],
    'assumptions': ['scipy.sparse model', '.pyx->Python translation (validated against the compiled extension each run)'],
}
