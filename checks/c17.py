"""C17 All accepted construction inputs agree; malformed input is always rejected."""
import itertools
from sx.harness import *      # noqa
from sx.harness import _arr
from sx import text as T

PROP = 'C17'
FORMS = ['dense-array', 'nested-lists', 'triples', 'triples+zero', 'dict', 'list-of-arrays', 'list-of-dicts', 'list-of-sparse-rows',
         'csr', 'csr-unsorted+zero', 'csc', 'coo', 'coo-duplicates', 'dok-any-insertion-order', 'lil', 'lil-from-unsorted+zero',
         'bsr-1x1-blocks', 'bsr-one-block']
# element types other than float64: the same forms holding (symbolic) integers, or booleans
TYPED_FORMS = ['dense-array', 'nested-lists', 'triples', 'csr', 'csc', 'coo', 'lil', 'bsr-one-block']


def encode(form, D, nr, nc, kind='real'):
    """the same dense term matrix D in one accepted input form; returns (data, kwargs)"""
    import numpy as np
    b = B()
    sym = b.mode == 'sym'
    np_type = {'real': float, 'int': int, 'bool': bool}[kind]
    py = {'real': (lambda v: v), 'int': (lambda v: v if is_sym(v) else int(v)), 'bool': (lambda v: bool(v))}[kind]
    if kind != 'real':
        D = [[py(v) for v in r] for r in D]

    def _arr(data):
        out = np.empty(len(data), dtype=object if sym else np_type)
        for i, v in enumerate(data):
            out[i] = v
        return out
    nzc = [(i, j) for i in range(nr) for j in range(nc) if is_sym(D[i][j]) or D[i][j] != 0]
    zc = [(i, j) for i in range(nr) for j in range(nc) if (i, j) not in nzc]

    def arr2(rows):
        a = np.empty((len(rows), len(rows[0])), dtype=object if sym else np_type)
        for i, r in enumerate(rows):
            for j, v in enumerate(r):
                a[i, j] = v
        return a

    def arr1(row):
        a = np.empty(len(row), dtype=object if sym else np_type)
        for j, v in enumerate(row):
            a[j] = v
        return a

    def csr(cells, reverse=False):
        data, indices, indptr = [], [], [0]
        for i in range(nr):
            cols = [j for j in range(nc) if (i, j) in cells]
            if reverse:
                cols = cols[::-1]
            for j in cols:
                data.append(D[i][j])
                indices.append(j)
            indptr.append(len(data))
        return b.csr((_arr(data), indices, indptr), shape=(nr, nc), dtype=np_type)
    if form == 'dok-any-insertion-order':
        # a dictionary-of-keys matrix converts in insertion order: every order is a different stored layout
        m = b.sp.dok_matrix((nr, nc), dtype=np_type)
        perms = list(itertools.permutations(nzc)) if len(nzc) <= 3 else [tuple(nzc), tuple(nzc[::-1]), tuple(nzc[1:] + nzc[:1])]
        for i, j in perms[choice(len(perms), 'insertion-order')]:
            m[i, j] = D[i][j]
        return m, {}
    if form == 'lil':
        return b.sp.lil_matrix(csr(set(nzc))), {}
    if form == 'lil-from-unsorted+zero':
        cells = set(nzc)
        if zc:
            cells.add(zc[choice(len(zc), 'stored-zero')])
        return b.sp.lil_matrix(csr(cells, reverse=True)), {}
    if form == 'bsr-1x1-blocks':
        return b.sp.bsr_matrix(csr(set(nzc), reverse=True), blocksize=(1, 1)), {}
    if form == 'bsr-one-block':
        # one dense block: every absent cell becomes an explicitly stored zero
        if not nzc:
            raise Abort()
        return b.sp.bsr_matrix(csr(set(nzc)), blocksize=(nr, nc)), {}
    if form == 'dense-array':
        return arr2(D), {}
    if form == 'nested-lists':
        return [list(r) for r in D], {'input_is_dense': True}
    if form == 'triples':
        if not nzc:
            raise Abort()
        return [[i, j, D[i][j]] for i, j in nzc], {}
    if form == 'triples+zero':
        if not zc or not nzc:
            raise Abort()
        z = zc[choice(len(zc), 'zero-triple')]
        tr = [[i, j, D[i][j]] for i, j in nzc]
        tr.insert(choice(len(tr) + 1, 'zero-pos'), [z[0], z[1], 0.0])
        return tr, {}
    if form == 'dict':
        if not nzc:
            raise Abort()
        return {(i, j): D[i][j] for i, j in nzc}, {}
    if form == 'list-of-arrays':
        return [arr1(r) for r in D], {}
    if form == 'list-of-dicts':
        # shape is inferred from the largest coordinate: the last column must hold an entry, and every row one
        if not any((i, nc - 1) in nzc for i in range(nr)) or nr > nc:
            raise Abort()
        return [{(0, j): D[i][j] for j in range(nc) if (i, j) in nzc} for i in range(nr)], {}
    if form == 'list-of-sparse-rows':
        if nr > nc or nc == 1:
            raise Abort()       # the converter guesses the orientation from the first vector's shape
        rows = []
        for i in range(nr):
            cols = [j for j in range(nc) if (i, j) in nzc]
            rows.append(b.csr((_arr([D[i][j] for j in cols]), cols, [0, len(cols)]), shape=(1, nc)))
        return rows, {}
    if form == 'csr':
        return csr(set(nzc)), {}
    if form == 'csr-unsorted+zero':
        cells = set(nzc)
        if zc:
            cells.add(zc[choice(len(zc), 'stored-zero')])
        return csr(cells, reverse=True), {}
    if form == 'csc':
        return csr(set(nzc)).tocsc(), {}
    if form == 'coo':
        return csr(set(nzc)).tocoo(), {}
    if form == 'coo-duplicates':
        # a cell given as two entries v - 1 and 1: COO input sums duplicates
        if not nzc:
            raise Abort()
        i0, j0 = nzc[choice(len(nzc), 'dup-cell')]
        data, rows, cols = [], [], []
        for i, j in nzc:
            if (i, j) == (i0, j0):
                data += [D[i][j] - 1, 1.0]
                rows += [i, i]
                cols += [j, j]
            else:
                data.append(D[i][j])
                rows.append(i)
                cols.append(j)
        return b.coo((_arr(data), (rows, cols)), shape=(nr, nc)), {}
    raise ValueError(form)


def _scribble(x):
    """overwrite every numeric buffer of a constructor argument; False if it has none"""
    import numpy as np
    done = False
    if hasattr(x, 'tocsr'):
        bufs = [getattr(x, 'data', None)]
    elif isinstance(x, np.ndarray):
        bufs = [x]
    elif isinstance(x, list):
        bufs = [getattr(r, 'data', None) if hasattr(r, 'tocsr') else r for r in x if isinstance(r, np.ndarray) or hasattr(r, 'tocsr')]
    else:
        bufs = []
    for arr in bufs:
        if isinstance(arr, np.ndarray) and arr.size:
            arr[...] = 77.0
            done = True
    return done


def h_forms(nr, nc, form, kind='real'):
    b = B()
    cells, D = sym_matrix(nr, nc, kind='real' if kind == 'real' else 'int')
    if kind == 'bool':
        D = [[1.0 if is_sym(v) else 0.0 for v in r] for r in D]
    oids, sids = ids_for(nr, 'observation'), ids_for(nc, 'sample')
    data, kw = encode(form, D, nr, nc, kind)
    md = pick(['none', 'both', 'falsy'], 'md')
    omd, smd = metadata_menu(md, oids, sids)
    t, e = call(lambda: b.Table(data, list(oids), list(sids), omd, smd, type='OTU table', **kw))
    sig = dict(form=form, element_type=kind)
    if e is not None:
        fail('forms:raised', f"{type(e).__name__}: {e}"[:160], **sig)
        return
    exp = ATM(oids, sids, D, omd, smd, 'OTU table')
    same_table('forms:content', observe(t), exp, type_=True, **sig)
    coherent('forms:coherent', t, **sig)
    # equal to the table built from the dense array
    ref, _ = encode('dense-array', D, nr, nc)
    t0 = b.Table(ref, list(oids), list(sids), omd, smd, type='OTU table')
    if not (t == t0) or not (t0 == t):
        fail('forms:equal-to-dense-construction', t.descriptive_equality(t0), **sig)
    if t.nnz != sum(1 for r in D for x in r if is_sym(x) or x != 0):
        fail('forms:nnz', str(t.nnz), **sig)
    # the table holds the described values whatever the caller does with its own buffers afterwards
    if _scribble(data):
        same_table('forms:independent-of-input', observe(t), exp, type_=True, **sig)


def h_adjacency(nrec, header):
    """Table.from_adjacency: cells are the sums of the records naming that pair"""
    b = B()
    obs_menu, samp_menu = ['oB', 'oA', 'o C'], ['s2', 's10']
    recs = []
    for k in range(nrec):
        o = obs_menu[choice(len(obs_menu), f'obs{k}')]
        s_ = samp_menu[choice(len(samp_menu), f'samp{k}')]
        if flag(f'zero-record{k}'):
            recs.append((o, s_, 0.0))       # an explicit zero record still names its observation and sample
        else:
            recs.append((o, s_, var(f'a_{k}', nonzero=True)))
    lines = []
    if header:
        lines.append('#OTU ID\tSampleID\tvalue\n')
    for k, (o, s_, v) in enumerate(recs):
        num = T.SText([T.Hole('num', 'str', v)]) if is_sym(v) else repr(float(v))
        lines.append(T.mk([o + '\t' + s_ + '\t', num, '\n']))
    if not header:
        # the header-less form sniffs the first line's third field with a regular expression: concrete first value
        first = pick(['2.5', '2.5e-07', '1e+16', '-3', '7', '+0.5', '3E2'], 'first-value-text')
        lines[0] = recs[0][0] + '\t' + recs[0][1] + '\t' + first + '\n'
        recs[0] = (recs[0][0], recs[0][1], float(first))
    t, e = call(lambda: b.Table.from_adjacency(list(lines)))
    sig = dict(header=int(header), n=nrec)
    if e is not None:
        fail('adjacency:raised', f"{type(e).__name__}: {e}"[:160], **sig)
        return
    oids = sorted({r[0] for r in recs})
    sids = sorted({r[1] for r in recs})
    D = [[ssum([v for (o, s_, v) in recs if o == oi and s_ == si], 0.0) for si in sids] for oi in oids]
    same_table('adjacency:cells-are-sums', observe(t), ATM(oids, sids, D), **sig)
    coherent('adjacency:coherent', t, **sig)


ID_VARIANTS = ['ok', 'dup-first-last', 'dup-adjacent', 'too-few', 'too-many', 'too-many-with-dup']
MD_VARIANTS = ['none', 'ok', 'ok-with-null', 'too-short', 'too-long', 'string-entry', 'int-entry', 'list-entry',
               'zero-int-entry', 'empty-string-entry', 'empty-list-entry', 'false-entry',
               'all-zero-ints', 'all-empty-strings', 'too-short-all-null', 'too-long-all-null', 'empty-list', 'empty-tuple']


def _ids(variant, base):
    if variant == 'ok':
        return list(base)
    if variant == 'dup-first-last':
        return list(base[:-1]) + [base[0]]
    if variant == 'dup-adjacent':
        return [base[0], base[0]] + list(base[2:])
    if variant == 'too-few':
        return list(base[:-1])
    if variant == 'too-many-with-dup':
        return list(base) + [base[0]]
    return list(base) + ['extra']


def _md(variant, n):
    ok = [{'k': i} for i in range(n)]
    return {'none': None, 'ok': ok, 'ok-with-null': [None] + ok[1:], 'too-short': ok[:-1], 'too-long': ok + [{'k': 9}],
            'string-entry': ok[:-1] + ['oops'], 'int-entry': [7] + ok[1:], 'list-entry': ok[:-1] + [['a']],
            'zero-int-entry': [0] + ok[1:], 'empty-string-entry': ok[:-1] + [''], 'empty-list-entry': [[]] + ok[1:],
            'false-entry': ok[:-1] + [False],
            'all-zero-ints': [0] * n, 'all-empty-strings': [''] * n, 'too-short-all-null': [None] * (n - 1),
            'too-long-all-null': [None] * (n + 1), 'empty-list': [], 'empty-tuple': ()}[variant]


def h_malformed(nr, nc, form, oid_v, sid_v):
    b = B()
    cells, D = sym_matrix(nr, nc, dense_only=flag('dense'))
    # "non-empty table" = a table with IDs on both axes (Table.is_empty looks at the IDs); an all-zero matrix counts
    data, kw = encode(form, D, nr, nc)
    degenerate = None
    if form == 'dense-array' and oid_v == 'ok' and sid_v == 'ok' and flag('matrix-with-a-zero-length-axis'):
        # the data carries its own degenerate shape while both id lists are non-empty: the counts disagree
        import numpy as np
        degenerate = pick(['0xM', 'Nx0', 'empty-1d', 'csr-0xM'], 'degenerate-matrix')
        data = {'0xM': np.zeros((0, nc)), 'Nx0': np.zeros((nr, 0)), 'empty-1d': np.array([]),
                'csr-0xM': b.csr((0, nc))}[degenerate]
    omd_v = pick(MD_VARIANTS, 'obs-md')
    smd_v = pick(MD_VARIANTS, 'samp-md') if omd_v in ('none', 'ok') else 'none'
    oids = _ids(oid_v, ids_for(nr, 'observation'))
    sids = _ids(sid_v, ids_for(nc, 'sample'))
    omd, smd = _md(omd_v, nr), _md(smd_v, nc)
    bad = (degenerate is not None or oid_v != 'ok' or sid_v != 'ok' or omd_v not in ('none', 'ok', 'ok-with-null')
           or smd_v not in ('none', 'ok', 'ok-with-null'))
    t, e = call(lambda: b.Table(data, oids, sids, omd, smd, **kw))
    FALSY = ('all-zero-ints', 'all-empty-strings', 'too-short-all-null', 'too-long-all-null')
    only_falsy_md = (oid_v == 'ok' and sid_v == 'ok' and all(v in FALSY + ('none', 'ok', 'ok-with-null') for v in (omd_v, smd_v))
                     and any(v in FALSY for v in (omd_v, smd_v)))
    sig = dict(form=form, obs_ids=oid_v, samp_ids=sid_v, obs_md=omd_v, samp_md=smd_v, only_all_falsy_metadata=int(only_falsy_md),
               matrix=degenerate or 'ok')
    X = b.X
    if bad:
        if e is None:
            fail('malformed:accepted', f"ids {oids}/{sids} md {omd!r}/{smd!r}", **sig)
        elif not isinstance(e, X.TableException):
            fail('malformed:wrong-error', f"{type(e).__name__}: {e}"[:160], **sig)
    else:
        if e is not None:
            fail('wellformed:rejected', f"{type(e).__name__}: {e}"[:160], **sig)


HARNESSES = {'forms': h_forms, 'adjacency': h_adjacency, 'malformed': h_malformed}


def jobs(tier):
    out = []
    shapes = [(2, 2), (2, 3)] if tier == 'quick' else [(2, 2), (2, 3), (3, 2), (3, 3)]
    for nr, nc in shapes:
        for f in FORMS:
            if nr > nc and f in ('list-of-sparse-rows', 'list-of-dicts'):
                continue        # these forms take their orientation / shape from the data: only defined for nr <= nc here
            out.append(('forms', (nr, nc, f)))
    for nr, nc in ([(2, 2)] if tier == 'quick' else [(2, 2), (2, 3), (3, 2)]):
        for f in TYPED_FORMS:
            for kind in ('int', 'bool'):
                out.append(('forms', (nr, nc, f, kind)))
    for n in ((2, 3) if tier == 'quick' else (2, 3, 4)):
        for h in (True, False):
            out.append(('adjacency', (n, h)))
    for form in ('dense-array', 'csr', 'triples'):
        for ov in ID_VARIANTS:
            for sv in ID_VARIANTS:
                if tier == 'quick' and form != 'dense-array' and ov != 'ok' and sv != 'ok':
                    continue
                if form == 'triples' and (ov.startswith('too') or sv.startswith('too')):
                    continue        # coordinate triples take their shape from the ID lists: a different ID count is a different table
                out.append(('malformed', (2, 2, form, ov, sv)))
    # three ids: duplicates that are not neighbours
    for ov, sv in (('dup-first-last', 'ok'), ('ok', 'dup-first-last')):
        out.append(('malformed', (3, 3, 'csr', ov, sv)))
    return out


def extra_engines(tier, seed):
    from checks import ch_runner
    return ch_runner.run('C17', tier, timeout=60 if tier == 'quick' else 300)


MANIFEST = {
    'engine': 'sx+crosshair',
    'technique': 'symbolic execution of the real source with z3 (SX: construction forms, adjacency, malformed input) + CrossHair over selector-encoded uc record lists against the counting specification',
}

OPTS = {'quick': {'time_budget': 60}, 'thorough': {'time_budget': 900}}

META = {
    'explanation': "C17: the same symbolic matrix (every sparsity pattern) encoded in 18 accepted input forms and, for 8 of them, also with int / bool element types (dense array, nested lists, "
                   "triples with/without explicit zeros, dict, list of arrays / dicts / sparse rows, CSR (also unsorted with a stored zero), CSC, COO, COO "
                   "with duplicate entries, dok in every insertion order, lil, bsr with 1x1 and full blocks) must construct tables holding exactly the described values and comparing equal to the dense construction, and keep holding them after the caller overwrites every numeric buffer it passed in; "
                   "from_adjacency on record lists with symbolic values (text holes) must yield the per-pair sums; every malformed combination from the menu "
                   "(duplicate ids anywhere, too few/many ids, metadata too short/long/empty/non-mapping/all-falsy) must raise TableException. (CrossHair) parse_uc / from-uc on "
                   "record lists chosen by symbolic selectors (record type, query id, target id, interleaved comment/blank lines) against the counting specification.",
    'encoded': {'biom/parse.py': ['parse_uc'], 'biom/cli/uc_processor.py': ['_from_uc', '_id_map_from_fasta'],
                'biom/table.py': ['__init__', '_to_sparse', 'coo_arrays_to_sparse', 'list_list_to_sparse', 'nparray_to_sparse',
                                  'list_nparray_to_sparse', 'list_sparse_to_sparse', 'list_dict_to_sparse', 'dict_to_sparse', 'from_adjacency',
                                  '_cast_metadata', '__eq__'],
                'biom/err.py': ['errcheck', 'test', '_test_obssize', '_test_sampsize', '_test_obsdup', '_test_sampdup', '_test_obsmdsize',
                                '_test_sampmdsize']},
    'bounds': {'quick': {'shapes': '2x2, 2x3 all sparsity patterns', 'adjacency': '2-3 records over 3x2 id alphabet, symbolic values',
                         'malformed': '5x5 id variants x 12 metadata variants on 2x2'},
               'thorough': {'shapes': '2x2, 2x3, 3x2, 3x3', 'adjacency': 'up to 4 records'}},
    'outside': ['lil/dok/bsr sparse inputs (only their real tocsr() is involved)', 'int/bool dtype inputs', 'parse_uc / from-uc (see C17 note in DESIGN.md)',
                'row-dict / sparse-row inputs whose last row/column is empty (shape is inferred from the largest coordinate by design)'],
    'assumptions': ['scipy.sparse model incl. COO duplicate summing', 'float(text of a number) is that number (token axiom) in from_adjacency'],
}
