"""C07 Non-in-place operations never modify their inputs; in-place is equivalent."""
from sx.harness import *      # noqa
from checks.ops import OPS, COUNT_OPS
from checks.c05 import make_other

PROP = 'C07'

# follow-up in-place mutations applied to a RESULT; the original must not notice
def _mutate_result(r, b):
    if r.is_empty():
        return
    oi = [str(x) for x in r.ids(axis='observation')]
    si = [str(x) for x in r.ids()]
    r.transform(lambda v, i, m: v * 3, axis='sample', inplace=True)
    r.transform(lambda v, i, m: v * 5, axis='observation', inplace=True)
    same_width = {x: ('Z' + x)[:max(1, len(x))] for x in si}        # as wide as the old names: an id buffer can be rewritten in place
    r.update_ids(same_width if len(set(same_width.values())) == len(si) else {x: 'Z' + x for x in si}, axis='sample', inplace=True)
    r.update_ids({x: ('Y' + x)[:max(1, len(x))] for x in oi}, axis='observation', strict=True, inplace=True) \
        if len({('Y' + x)[:max(1, len(x))] for x in oi}) == len(oi) else None
    for ax in ('sample', 'observation'):
        md = r.metadata(axis=ax)
        if md is not None:
            for m in md:
                m['poisoned'] = 1
                for k, v in list(m.items()):
                    if isinstance(v, list):
                        v.append('poison')
    r.filter(list(r.ids())[:1], axis='sample', inplace=True)


def _snapshot_ok(label, t, a, **sig):
    same_table(label, observe(t), a, type_=True, **sig)
    coherent(label + ':coherent', t, **sig)
    # the public accessors still answer the old content too (a stale lookup would show here)
    for ax in ('observation', 'sample'):
        if [str(x) for x in t.ids(axis=ax)] != a.ids(ax):
            fail(label + ':ids()', ax, **sig)
    if a.obs_ids and a.samp_ids:
        prove(label + ':cell', eq(t.get_value_by_ids(a.obs_ids[-1], a.samp_ids[0]), a.dense[-1][0]), **sig)


def h_pure(name, nr, nc, zeros, counts=False):
    spec = (COUNT_OPS if counts else OPS)[name]
    b = B()
    md = 'both'
    if counts:
        t, a = make_table(nr, nc, kind='int', lo=1, md=md, zeros=zeros, type_='OTU table')
    else:
        t, a = make_table(nr, nc, md=md, zeros=zeros, type_='OTU table')
    other = ao = None
    if spec['arity'] == 2:
        kind = name if name.startswith('concat') else name.split(':')[0]
        other, ao = make_other(kind, a, md)
    if name.split(':')[0] in ('add_metadata', 'del_metadata'):
        raise Abort()           # these are documented in-place mutators without an inplace flag
    sig = dict(op=name, layout=a.info['layout'])
    try:
        out = spec['fn'](b, t, other, a, ao, False)
    except (Abort, Unsupported):
        raise
    except Exception as e:      # noqa
        note('raised', repr(e)[:80])
        _snapshot_ok('pure:receiver-after-error', t, a, **sig)
        return
    results = out if isinstance(out, list) else [out]
    _snapshot_ok('pure:receiver', t, a, **sig)
    if other is not None:
        _snapshot_ok('pure:argument', other, ao, **sig)
    for r in results:
        if r is t:
            fail('pure:returned-receiver', name, **sig)
            return
    # later in-place changes to the result never show through
    for r in results:
        try:
            _mutate_result(r, b)
        except (Abort, Unsupported):
            raise
        except Exception as e:  # noqa
            note('mutate-raised', repr(e)[:80])
    _snapshot_ok('pure:receiver-after-result-mutation', t, a, **sig)
    if other is not None:
        _snapshot_ok('pure:argument-after-result-mutation', other, ao, **sig)


def h_inplace(name, nr, nc, zeros):
    spec = OPS[name]
    b = B()
    t, a = make_table(nr, nc, md='both', zeros=zeros, type_='OTU table')
    t2 = a.twin()
    sig = dict(op=name, layout=a.info['layout'])
    e1 = e2 = r1 = r2 = None
    try:
        r1 = spec['fn'](b, t, None, a, None, False)
    except (Abort, Unsupported):
        raise
    except Exception as e:      # noqa
        e1 = e
    try:
        r2 = spec['fn'](b, t2, None, a, None, True)
    except (Abort, Unsupported):
        raise
    except Exception as e:      # noqa
        e2 = e
    if (e1 is None) != (e2 is None):
        fail('inplace:error-mismatch', f"{e1!r} vs {e2!r}", **sig)
        return
    if e1 is not None:
        return
    if r2 is not t2:
        fail('inplace:returns-self', name, **sig)
    same_table('inplace:equals-noninplace', observe(t2), observe(r1), type_=True, **sig)
    coherent('inplace:coherent', t2, **sig)


HARNESSES = {'pure': h_pure, 'inplace': h_inplace}


def jobs(tier):
    out = []
    for name, spec in OPS.items():
        if name.split(':')[0] in ('add_metadata', 'del_metadata'):
            continue
        if tier == 'quick':
            out.append(('pure', (name, 2, 2, 1)))
            out.append(('pure', (name, 2, 3, 0)))
        else:
            out.append(('pure', (name, 2, 2, 2)))
            out.append(('pure', (name, 2, 3, 0)))
            out.append(('pure', (name, 3, 2, 0)))
        if spec['inplace']:
            out.append(('inplace', (name, 2, 2, 1)))
            if tier != 'quick':
                out.append(('inplace', (name, 2, 3, 1)))
                out.append(('inplace', (name, 3, 2, 0)))
    for name in COUNT_OPS:
        out.append(('pure', (name, 2, 2, 1, True)))
        if tier != 'quick':
            out.append(('pure', (name, 2, 3, 0, True)))
    return out


def weight(job):
    return {'remove_empty': 9, 'filter-pred': 8, 'rankdata': 7, 'norm': 6, 'merge': 6, 'subsample': 8}.get(job[1][0].split(':')[0], 3)



# heavy shards are split into disjoint parts of their path tree (run in parallel; together exactly the unsplit exploration)
def slices(job, tier):
    h, a = job
    return 3 if h == 'pure' and a[0].split(':')[0] in ('norm', 'rankdata', 'subsample-by-id', 'filter-pred', 'remove_empty') else 1

OPTS = {'quick': {'time_budget': 60}, 'thorough': {'time_budget': 900}}

META = {
    'explanation': "C07: for every operation of the catalogue run with inplace=False (or documented to return a new table), the receiver and "
                   "argument tables are proved observably unchanged (IDs, metadata, type concretely; every cell value by the solver) -- also after "
                   "the RESULT has been mutated in place (values, ids, metadata dict/list contents, filtering); for every operation with an inplace "
                   "flag the in-place run on an identical twin state is proved equal to the non-in-place result and must return the receiver.",
    'encoded': {'biom/table.py': ['filter', 'remove_empty', 'head', 'sort', 'sort_order', 'transpose', 'copy', 'update_ids', 'transform', 'norm',
                                  'pa', 'rankdata', 'subsample', 'collapse', 'partition', 'merge', '_fast_merge', 'concat', 'align_to',
                                  '_get_sparse_data', '__init__', '_conv_to_self_type', '_to_sparse'],
                'biom/_filter.pyx': ['_filter', '_remove_rows_csr'], 'biom/_transform.pyx': ['_transform'],
                'biom/_subsample.pyx': ['subsample', '_subsample_without_replacement', '_subsample_with_replacement']},
    'bounds': {'quick': {'states': '2x2, <=1 explicit zero, all index orders, CSR/CSC'},
               'thorough': {'states': '2x2 (<=2 zeros), 2x3, 3x2'}},
    'outside': ['aliasing that only shows through arrays the model does not represent (e.g. numpy views of ID arrays are real numpy and ARE represented; '
                'sparse index arrays are modelled)', 'larger tables', 'argument values outside the menu'],
    'assumptions': ['representation (layout, index order, stored zeros) is not observable content', 'scipy.sparse model aliasing fidelity is validated '
                    'with shares_memory / identity checks each run'],
}
