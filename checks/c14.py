"""C14 Subsetting while reading equals reading everything and then filtering."""
import datetime
import itertools
import json
from sx.harness import *      # noqa
from checks.h5spec import new_store

PROP = 'C14'
DATE = datetime.datetime(2021, 3, 4, 5, 6, 7)


class SDoc:
    """stands for 'the JSON text of this document' in symbolic runs (json codec: loads(dumps(x)) == x, trusted)"""

    def __init__(self, doc):
        self.doc = doc


def install_json_stub():
    """biom.parse.json.loads / json.load accept an SDoc and hand back its document"""
    import sx.env as env
    P = env.module('biom.parse')
    if getattr(P.json, '_sx_stub', False):
        return P

    class J:
        _sx_stub = True

        def __getattr__(self, k):
            return getattr(json, k)

        @staticmethod
        def loads(x, *a, **k):
            if isinstance(x, SDoc):
                import copy
                return copy.deepcopy(x.doc) if B().mode == 'conc' else _copy_doc(x.doc)
            from sx import text as T_
            if isinstance(x, T_.SText):
                first = x.parts[0]
                if isinstance(first, str) and first.lstrip()[:1] not in ('{', '['):
                    raise ValueError("Expecting value: line 1 column 1 (char 0)")      # what json.loads says for TSV text
                from sx import core as C_
                raise C_.Unsupported("json.loads of symbolic text")
            return json.loads(x, *a, **k)

        @staticmethod
        def load(x, *a, **k):
            return json.load(x, *a, **k)
    P.json = J()
    return P


def _copy_doc(d):
    if isinstance(d, dict):
        return {k: _copy_doc(v) for k, v in d.items()}
    if isinstance(d, list):
        return [_copy_doc(v) for v in d]
    return d


def _nonempty_subsets(n):
    return [tuple(k for k in range(n) if m >> k & 1) for m in range(1, 1 << n)]


def _expected(a, axis, keep, drop_empty, with_md=True):
    inv = 'observation' if axis == 'sample' else 'sample'
    exp = a.select(axis, sorted(keep))
    if drop_empty:
        kept = [q for q in range(len(exp.ids(inv))) if any(is_sym(x) or x != 0 for x in exp.vec(inv, q))]
        exp = exp.select(inv, kept)
    if not with_md:
        exp.obs_md = exp.samp_md = None
    return exp


def h_hdf5(nr, nc, axis, with_md):
    b = B()
    md = pick(['none', 'both'], 'md')
    t, a = make_table(nr, nc, md=md, zeros=1, type_='OTU table')
    n = len(a.ids(axis))
    subs = _nonempty_subsets(n)
    keep = list(subs[choice(len(subs), 'subset')])
    if flag('request-reversed'):
        keep = keep[::-1]
    ids = [a.ids(axis)[k] for k in keep]
    as_kind = pick(['list', 'array', 'set'], 'ids-as')
    import numpy as np
    req = {'list': list(ids), 'array': np.array(ids), 'set': set(ids)}[as_kind]
    store = new_store()
    t.to_hdf5(store, 'verif-c14', creation_date=DATE)
    sig = dict(axis=axis, with_metadata=int(with_md))
    r, e = call(lambda: b.Table.from_hdf5(store, ids=req, axis=axis, subset_with_metadata=with_md))
    if e is not None:
        fail('hdf5-subset:raised', f"{type(e).__name__}: {e}"[:160], **sig)
        return
    exp = _expected(a, axis, keep, drop_empty=with_md, with_md=with_md)
    got = observe(r)
    same_table('hdf5-subset', got, exp, type_=with_md, **sig)
    coherent('hdf5-subset:coherent', r, **sig)
    # the same thing, the long way round: read everything, then filter
    full = b.Table.from_hdf5(store)
    f2 = full.filter(list(ids), axis=axis, inplace=False)
    if with_md:
        inv = 'observation' if axis == 'sample' else 'sample'
        f2 = f2.filter(lambda v, i, m: (v != 0).any(), axis=inv, inplace=False)
    g2 = observe(f2)
    if not with_md:
        g2.obs_md = g2.samp_md = None
    same_table('hdf5-subset:equals-read-then-filter', got, g2, **sig)


def h_hdf5_unknown(nr, nc, axis, with_md):
    b = B()
    t, a = make_table(nr, nc, md='none', zeros=0, type_='OTU table', unsorted=False, layouts=('csr',))
    store = new_store()
    t.to_hdf5(store, 'verif-c14', creation_date=DATE)
    n = len(a.ids(axis))
    subs = [()] + _nonempty_subsets(n)
    keep = list(subs[choice(len(subs), 'known-part')])
    ids = [a.ids(axis)[k] for k in keep]
    unknown = pick(['not-in-file', max(a.ids(axis), key=len) + '_rep2', a.ids(axis)[0] + 'x'], 'unknown-id')
    ids.insert(choice(len(ids) + 1, 'pos'), unknown)
    r, e = call(lambda: b.Table.from_hdf5(store, ids=ids, axis=axis, subset_with_metadata=with_md))
    if e is None:
        fail('hdf5-subset:unknown-id-accepted', f"{ids} -> {list(r.ids(axis=axis))}", axis=axis, with_metadata=int(with_md))


def _doc(a, dense_terms_):
    nr, nc = len(a.obs_ids), len(a.samp_ids)
    data = [[i, j, dense_terms_[i][j]] for i in range(nr) for j in range(nc) if is_sym(dense_terms_[i][j]) or dense_terms_[i][j] != 0]
    return {'id': None, 'format': 'Biological Observation Matrix 1.0.0', 'format_url': 'http://biom-format.org',
            'type': 'OTU table', 'generated_by': 'verif', 'date': DATE.isoformat(), 'matrix_type': 'sparse',
            'matrix_element_type': 'float', 'shape': [nr, nc], 'data': data,
            'rows': [{'id': o, 'metadata': None if a.obs_md is None else a.obs_md[k]} for k, o in enumerate(a.obs_ids)],
            'columns': [{'id': s_, 'metadata': None if a.samp_md is None else a.samp_md[k]} for k, s_ in enumerate(a.samp_ids)]}


def h_json(nr, nc, axis):
    P = install_json_stub()
    md = pick(['none', 'both'], 'md')
    cells, dense = sym_matrix(nr, nc)
    if not any(c is not None for r in cells for c in r):
        raise Abort()       # "data": [] cannot be loaded at all (recorded under C02)
    oids, sids = ids_for(nr, 'observation'), ids_for(nc, 'sample')
    omd, smd = metadata_menu(md, oids, sids)
    a = ATM(oids, sids, dense, omd, smd, 'OTU table')
    doc = _doc(a, dense)
    n = len(a.ids(axis))
    subs = _nonempty_subsets(n)
    keep = list(subs[choice(len(subs), 'subset')])
    ids = [a.ids(axis)[k] for k in keep]
    src = SDoc(doc) if B().mode == 'sym' else json.dumps(doc)
    sig = dict(axis=axis)
    r, e = call(lambda: P.parse_biom_table(src, ids=ids, axis=axis))
    if e is not None:
        fail('json-subset:raised', f"{type(e).__name__}: {e}"[:160], **sig)
        return
    exp = _expected(a, axis, keep, drop_empty=True)
    same_table('json-subset', observe(r), exp, type_=True, **sig)
    coherent('json-subset:coherent', r, **sig)


def h_cli_hdf5(nr, nc, axis):
    """`biom subset-table -i <hdf5>`: _subset_table with biom_open stubbed to hand over the written store"""
    import contextlib
    import sx.env as env
    TS = env.module('biom.cli.table_subsetter')
    b = B()
    t, a = make_table(nr, nc, md='both', zeros=0, type_='OTU table', unsorted=False)
    store = new_store()
    t.to_hdf5(store, 'verif-c14', creation_date=DATE)

    @contextlib.contextmanager
    def fake_open(fp, permission='r'):
        yield store
    TS.biom_open = fake_open
    n = len(a.ids(axis))
    subs = _nonempty_subsets(n)
    keep = list(subs[choice(len(subs), 'subset')])
    ids = [a.ids(axis)[k] for k in keep]
    unknown = flag('plus-unknown-id')
    r, e = call(lambda: TS._subset_table('table.biom', None, axis, ids + (['nope'] if unknown else [])))
    sig = dict(axis=axis)
    if unknown:
        if e is None:
            fail('cli-hdf5:unknown-id-accepted', str(ids), **sig)
        return
    if e is not None:
        fail('cli-hdf5:raised', f"{type(e).__name__}: {e}"[:160], **sig)
        return
    table, fmt = r
    if fmt != 'hdf5':
        fail('cli-hdf5:format', fmt, **sig)
    same_table('cli-hdf5', observe(table), _expected(a, axis, keep, drop_empty=True), type_=True, **sig)
    for bad in (('table.biom', '{}', axis), (None, None, axis), ('table.biom', None, 'nonsense')):
        _, e = call(lambda: TS._subset_table(bad[0], bad[1], bad[2], ids))
        if not isinstance(e, ValueError):
            fail('cli-hdf5:bad-arguments-accepted', str(bad), **sig)


HARNESSES = {'cli_hdf5': h_cli_hdf5, 'hdf5': h_hdf5, 'hdf5_unknown': h_hdf5_unknown, 'json': h_json}


def jobs(tier):
    out = []
    for nr, nc in ([(2, 3), (3, 2)] if tier == 'quick' else [(2, 3), (3, 2), (3, 3)]):
        for ax in ('sample', 'observation'):
            if tier == 'quick' and (nr if ax == 'observation' else nc) < 3:
                continue
            for wm in (True, False):
                out.append(('hdf5', (nr, nc, ax, wm)))
                out.append(('hdf5_unknown', (nr, nc, ax, wm)))
            out.append(('json', (nr, nc, ax)))
            out.append(('cli_hdf5', (nr, nc, ax)))
    return out


def extra_engines(tier, seed):
    from checks import ch_runner
    return ch_runner.run('C14', tier, timeout=60 if tier == 'quick' else 300)


MANIFEST = {
    'engine': 'sx+crosshair',
    'technique': 'symbolic execution of the real source with z3 (SX: HDF5 / JSON subset reads over the h5py model) + CrossHair over selector-encoded serialisations and ID subsets for the raw-text JSON slicer',
}


# heavy shards are split into disjoint parts of their path tree (run in parallel; together exactly the unsplit exploration)
def slices(job, tier):
    h, a = job
    return 3 if h == 'hdf5' else 1

OPTS = {'quick': {'time_budget': 45}, 'thorough': {'time_budget': 900}}

META = {
    'explanation': "C14: (SX) Table.from_hdf5(ids=..., axis, subset_with_metadata) on stores written by the real to_hdf5 into the h5py model, for every "
                   "non-empty ID subset in either request order given as list/array/set, compared term-by-term with select-then-drop-empty on the abstract "
                   "table and with read-everything-then-filter; unknown IDs must be refused; parse_biom_table(json, ids=...) through the real from_json. "
                   "(CrossHair) the raw-text JSON slicer (direct_parse_key / direct_slice_data / get_axis_indices / _subset_table) on documents written by "
                   "the real to_json and re-serialised with selector-chosen whitespace, against parse-then-filter.",
    'encoded': {'biom/table.py': ['from_hdf5', 'to_hdf5', 'filter', 'from_json'], 'biom/parse.py': ['parse_biom_table', 'direct_parse_key',
                'direct_slice_data', '_direct_slice_data_sparse_obs', '_direct_slice_data_sparse_samp', 'get_axis_indices', 'strip_f',
                '_remap_axis_sparse_obs', '_remap_axis_sparse_samp'], 'biom/cli/table_subsetter.py': ['_subset_table']},
    'bounds': {'quick': {'shapes': '2x3, 3x2', 'subsets': 'all non-empty, both request orders'}, 'thorough': {'shapes': '2x3, 3x2, 3x3'}},
    'outside': ['real HDF5 files on disk', 'JSON documents not written by the library', 'the json C codec (loads(dumps(x)) == x is assumed)'],
    'assumptions': ['h5py model', 'json codec axiom'],
}
