"""C05 A table stays internally coherent after every sequence of operations (inductive step + 2-step sequences)."""
from sx.harness import *      # noqa
from checks.ops import OPS, COUNT_OPS

PROP = 'C05'


def make_other(kind, a, md):
    import numpy as np
    b = B()
    if kind.startswith('merge'):
        oids = [a.obs_ids[0], 'new-o']
        sids = [a.samp_ids[-1], 'new-s']
    elif kind.startswith('concat') and kind.endswith(':sample'):
        oids, sids = list(a.obs_ids)[::-1], ['c1', 'c2']
    elif kind.startswith('concat') and kind.endswith(':observation'):
        oids, sids = ['c1', 'c2'], list(a.samp_ids)[::-1]
    elif kind == 'align_to-already-aligned':
        oids, sids = list(a.obs_ids), list(a.samp_ids)
    else:
        oids, sids = list(a.obs_ids)[::-1], list(a.samp_ids)[::-1]
    nr, nc = len(oids), len(sids)
    dense = [[var(f"w_{i}_{j}", nonzero=True) for j in range(nc)] for i in range(nr)]
    data = [dense[i][j] for i in range(nr) for j in range(nc)]
    from sx.harness import _arr
    m = b.csr((_arr(data), [j for i in range(nr) for j in range(nc)], [i * nc for i in range(nr + 1)]), shape=(nr, nc))
    omd, smd = metadata_menu(md, oids, sids)
    if kind.startswith('merge') and omd is not None:
        # the operands' metadata need not carry the same categories
        omd = [dict(m_, src='other') for m_ in omd]
        smd = [dict(m_, src='other') for m_ in smd]
    t = b.Table(m, oids, sids, omd, smd, type='OTU table')
    return t, ATM(oids, sids, dense, omd, smd, 'OTU table')


def accessor_agreement(label, t, nnz_first, **sig):
    try:
        _accessor_agreement(label, t, nnz_first, **sig)
    except (Abort, Unsupported):
        raise
    except Exception as e:      # noqa -- an accessor failing on a coherent table is itself a disagreement
        fail(label + ':accessor-raised', f"{type(e).__name__}: {e}"[:200], **sig)


def _vec_claims(label, got, want, sig):
    """term-wise equalities of a vector an accessor returned with the expected one; a wrong length is a finding of its own"""
    got = list(got)
    if len(got) != len(want):
        fail(label + ':vector-length', f"{len(got)} entries, expected {len(want)}", **sig)
        return []
    return [eq(x, y) for x, y in zip(got, want)]


def _accessor_agreement(label, t, nnz_first, **sig):
    """every accessor describes the same dense term matrix D (read from the representation)"""
    import numpy as np
    dens0 = None
    if nnz_first:
        nnz = t.nnz
    else:
        dens0 = t.get_table_density()       # asked before anything has eliminated stored zeros
    D = dense_terms(t._data)
    oi = [str(x) for x in t.ids(axis='observation')]
    si = [str(x) for x in t.ids()]
    nr, nc = len(oi), len(si)
    claims = []
    if nr and nc:
        for i, o in enumerate(oi):
            claims += _vec_claims(label + ':data', t.data(o, axis='observation'), D[i], sig)
        for j, s_ in enumerate(si):
            claims += _vec_claims(label + ':data', t.data(s_, axis='sample'), [D[i][j] for i in range(nr)], sig)
        prove(label + ':data', and_(*claims), **sig)
        claims = []
        for i, o in enumerate(oi):
            for j, s_ in enumerate(si):
                claims.append(eq(t.get_value_by_ids(o, s_), D[i][j]))
        prove(label + ':cell', and_(*claims), **sig)
        claims = []
        for ax in ('observation', 'sample'):
            k = 0
            for vec, id_, md in t.iter(axis=ax):
                ids = oi if ax == 'observation' else si
                if str(id_) != ids[k]:
                    fail(label + ':iter-id', f"{id_} at {k}", **sig)
                want = D[k] if ax == 'observation' else [D[i][k] for i in range(nr)]
                claims += _vec_claims(label + ':iter', vec, want, sig)
                mdx = t.metadata(axis=ax)
                if (md is None) != (mdx is None) or (md is not None and md is not mdx[k]):
                    fail(label + ':iter-md', f"{ax} {k}", **sig)
                k += 1
            if k != len(oi if ax == 'observation' else si):
                fail(label + ':iter-count', ax, **sig)
        prove(label + ':iter', and_(*claims), **sig)
        claims = []
        for pax, tri, diag in (('sample', True, False), ('observation', True, False), ('observation', False, True)):
            n_ = nc if pax == 'sample' else nr
            pairs = list(t.iter_pairwise(axis=pax, tri=tri, diag=diag))
            if len(pairs) != (n_ * (n_ - 1) // 2 if tri else n_ * n_):
                fail(label + ':pairwise-count', f"{pax} tri={tri} diag={diag}: {len(pairs)}", **sig)
            idl = si if pax == 'sample' else oi
            for (d1, i1, m1), (d2, i2, m2) in pairs:
                j1, j2 = idl.index(str(i1)), idl.index(str(i2))
                w1 = [D[i][j1] for i in range(nr)] if pax == 'sample' else list(D[j1])
                w2 = [D[i][j2] for i in range(nr)] if pax == 'sample' else list(D[j2])
                claims += _vec_claims(label + ':pairwise', d1, w1, sig) + _vec_claims(label + ':pairwise', d2, w2, sig)
    prove(label + ':pairwise', and_(*claims), **sig)
    claims = []
    tot = ssum(v for r in D for v in r)
    claims.append(eq(t.sum('whole'), tot))
    so = t.sum('observation')
    ss = t.sum('sample')
    if len(so) != nr or len(ss) != nc:
        fail(label + ':sum-shape', f"{len(so)},{len(ss)}", **sig)
    else:
        claims += [eq(so[i], ssum(D[i])) for i in range(nr)]
        claims += [eq(ss[j], ssum(D[i][j] for i in range(nr))) for j in range(nc)]
    prove(label + ':sums', and_(*claims), **sig)
    # non-zero listing / count / density
    nzcells = [(oi[i], si[j]) for i in range(nr) for j in range(nc) if bool(D[i][j] != 0)]
    listed = [(str(o), str(s_)) for o, s_ in t.nonzero()]
    m_ = t._data
    stored = []
    if m_.format in ('csr', 'csc'):
        for k in range(len(m_.indptr) - 1):
            for p_ in range(int(m_.indptr[k]), int(m_.indptr[k + 1])):
                i_, j_ = (k, int(m_.indices[p_])) if m_.format == 'csr' else (int(m_.indices[p_]), k)
                stored.append((oi[i_], si[j_]))
    if sorted(listed) != sorted(nzcells):
        fail(label + ':nonzero-listing', f"listed {sorted(listed)} vs non-zero cells {sorted(nzcells)}",
             lists_exactly_stored_entries=int(sorted(listed) == sorted(stored)), **sig)
    nnz = t.nnz
    if nnz != len(nzcells):
        fail(label + ':nnz', f"{nnz} vs {len(nzcells)}", **sig)
    dens = t.get_table_density()
    want = (len(nzcells) / (nr * nc)) if nr and nc else 0.0
    if abs(dens - want) > 1e-12:
        fail(label + ':density', f"{dens} vs {want}", **sig)
    if dens0 is not None and abs(dens0 - want) > 1e-12:
        fail(label + ':density-before-nnz', f"{dens0} vs {want}", **sig)
    if tuple(t.shape) != (nr, nc):
        fail(label + ':shape', f"{t.shape}", **sig)
    for ax, ids in (('observation', oi), ('sample', si)):
        for k, x in enumerate(ids):
            if not t.exists(x, axis=ax) or t.index(x, axis=ax) != k:
                fail(label + ':index', f"{ax} {x}", **sig)
        if t.exists('definitely-not-an-id', axis=ax):
            fail(label + ':exists-unknown', ax, **sig)


def _run_op(name, spec, t, a, md, counts=False):
    b = B()
    other = ao = None
    if spec['arity'] == 2:
        kind = name if name.startswith('concat') else name.split(':')[0]
        other, ao = make_other(kind, a, md)
    inplace = spec['inplace'] and flag('inplace')
    out = None
    e = None
    try:
        out = spec['fn'](b, t, other, a, ao, inplace)
    except (Abort, Unsupported):
        raise
    except Exception as ex:     # noqa  -- an operation may refuse; the receiver must stay coherent
        e = ex
    return out, other, e


def h_step(name, nr, nc, zeros):
    """one operation from an arbitrary valid representation state"""
    spec = OPS[name]
    md = pick(['none', 'both'], 'md')
    t, a = make_table(nr, nc, md=md, zeros=zeros, type_='OTU table')
    out, other, e = _run_op(name, spec, t, a, md)
    note('raised', repr(e)[:80] if e is not None else None)
    nnz_first = flag('nnz-first')
    sig = dict(op=name)
    if coherent('receiver', t, **sig):
        accessor_agreement('receiver', t, nnz_first, **sig)
    if other is not None:
        coherent('argument', other, **sig)
    results = out if isinstance(out, list) else ([] if out is None else [out])
    for k, r in enumerate(results):
        if r is t:
            continue
        if coherent('result', r, **sig):
            accessor_agreement('result', r, nnz_first, **sig)


def h_two(name1, name2, nr, nc):
    """all 2-operation sequences over the alphabet, from canonical states (histories of depth 2)"""
    md = 'both'
    t, a = make_table(nr, nc, md=md, zeros=0, unsorted=False, layouts=('csr',), type_='OTU table')
    out, other, e = _run_op(name1, OPS[name1], t, a, md)
    results = out if isinstance(out, list) else ([t] if out is None else [out])
    cur = results[0]
    if not coherent('step1', cur, op=name1):
        return
    if cur.is_empty():
        return
    a1 = observe(cur)
    if OPS[name2]['arity'] == 2:
        raise Abort()       # binary second steps are covered by h_step with arbitrary states
    out2, _, e2 = _run_op(name2, OPS[name2], cur, a1, md)
    sig = dict(op1=name1, op2=name2)
    if coherent('step2:receiver', cur, **sig):
        accessor_agreement('step2:receiver', cur, False, **sig)
    for r in (out2 if isinstance(out2, list) else ([] if out2 is None else [out2])):
        if r is not cur and coherent('step2:result', r, **sig):
            accessor_agreement('step2:result', r, False, **sig)


def h_count_step(name, nr, nc):
    spec = COUNT_OPS[name]
    t, a = make_table(nr, nc, kind='int', lo=1, md='none', zeros=1, type_='OTU table')
    out, other, e = _run_op(name, spec, t, a, 'none')
    note('raised', repr(e)[:80] if e is not None else None)
    sig = dict(op=name)
    if coherent('receiver', t, **sig):
        accessor_agreement('receiver', t, False, **sig)
    if out is not None and coherent('result', out, **sig):
        accessor_agreement('result', out, True, **sig)


def h_three(name1, name2, name3, nr, nc):
    """3-operation sequences over a small alphabet from canonical states (histories of depth 3)"""
    md = 'both'
    t, a = make_table(nr, nc, md=md, zeros=0, unsorted=False, layouts=('csr',), type_='OTU table')
    cur = t
    for k, name in enumerate((name1, name2)):
        out, _, e = _run_op(name, OPS[name], cur, observe(cur), md)
        results = out if isinstance(out, list) else ([cur] if out is None else [out])
        cur = results[0]
        if not coherent(f'step{k + 1}', cur, op=name) or cur.is_empty():
            return
    out3, _, e3 = _run_op(name3, OPS[name3], cur, observe(cur), md)
    sig = dict(ops=f"{name1}>{name2}>{name3}")
    if coherent('step3:receiver', cur, **sig):
        accessor_agreement('step3:receiver', cur, False, **sig)
    for r in (out3 if isinstance(out3, list) else ([] if out3 is None else [out3])):
        if r is not cur and coherent('step3:result', r, **sig):
            accessor_agreement('step3:result', r, False, **sig)


HARNESSES = {'step': h_step, 'two': h_two, 'three': h_three, 'count_step': h_count_step}
THREE_ALPHABET = ['filter-ids:sample:keep', 'sort_order:observation', 'transpose', 'update_ids:sample:strict', 'transform-zeroing:observation',
                  'del_metadata:whole', 'remove_empty:whole', 'collapse:sample']

UNARY = [n for n, s in OPS.items() if s['arity'] == 1]
TWO_ALPHABET = ['filter-ids:sample:keep', 'filter-ids:observation:invert', 'filter-pred:sample', 'sort_order:sample',
                'sort:observation', 'transpose', 'update_ids:sample:strict', 'update_ids:observation:partial',
                'add_metadata:observation', 'del_metadata:whole', 'transform-zeroing:sample', 'norm:observation', 'pa',
                'collapse:sample', 'partition:observation', 'remove_empty:whole', 'head', 'subsample-by-id:sample', 'copy']


def jobs(tier):
    out = []
    for name in OPS:
        heavy = name.split(':')[0] in ('norm', 'rankdata', 'merge', 'collapse-norm', 'collapse', 'partition', 'concat', 'align_to')
        if tier == 'quick':
            out.append(('step', (name, 2, 2, 1)))
        else:
            out.append(('step', (name, 2, 2, 2)))
            out.append(('step', (name, 2, 3, 0 if heavy else 1)))
            out.append(('step', (name, 3, 2, 0)))
    # a single vector on one axis (1 x N, N x 1): the id-changing and reordering operations
    for name in OPS:
        if name.split(':')[0] in ('update_ids', 'sort_order', 'sort', 'filter-ids', 'transpose', 'concat', 'merge'):
            out.append(('step', (name, 1, 3, 0)))
            out.append(('step', (name, 3, 1, 0)))
    for name in COUNT_OPS:
        out.append(('count_step', (name, 2, 2)))
        if tier != 'quick':
            out.append(('count_step', (name, 2, 3)))
    if tier != 'quick':
        for n1 in TWO_ALPHABET:
            for n2 in TWO_ALPHABET:
                out.append(('two', (n1, n2, 2, 3)))
        for n1 in THREE_ALPHABET:
            for n2 in THREE_ALPHABET:
                for n3 in THREE_ALPHABET:
                    out.append(('three', (n1, n2, n3, 2, 2)))
    else:
        for n1 in TWO_ALPHABET[::3]:
            for n2 in TWO_ALPHABET[1::3]:
                out.append(('two', (n1, n2, 2, 2)))
    return out


def weight(job):
    h, args = job
    if h != 'step':
        return 1
    return {'remove_empty': 9, 'filter-pred': 8, 'rankdata': 7, 'subsample-by-id': 7, 'norm': 6, 'merge': 6}.get(args[0].split(':')[0], 3)


OPTS = {'quick': {'time_budget': 60}, 'thorough': {'time_budget': 900}}

META = {
    'explanation': "C05: inductive step -- every operation of the alphabet (with a finite argument menu, both axes) is run from an arbitrary "
                   "valid representation state (all sparsity patterns, stored-index orders, explicit zeros, CSR/CSC, with/without metadata); "
                   "afterwards the invariant Inv (shape = id counts, unique ids, id->position lookups exact, one metadata entry per id, well-formed "
                   "sparse arrays) is checked on receiver, arguments and every returned table, and every accessor (data, get_value_by_ids, iter, "
                   "iter_pairwise, nonzero, sum, nnz, density, shape, index/exists) is proved to describe the same dense term matrix. Plus all "
                   "2-operation sequences over a reduced alphabet (thorough: all 3-operation sequences over 8 operations). The alphabet includes chain / swap / colliding renames and the biom.concat wrapper.",
    'encoded': {'biom/table.py': ['filter', 'remove_empty', 'head', 'sort', 'sort_order', 'transpose', 'copy', 'update_ids', 'add_metadata',
                                  'del_metadata', 'transform', 'norm', 'pa', 'rankdata', 'subsample', 'collapse', 'partition', 'merge',
                                  '_fast_merge', 'concat', 'align_to', 'data', 'get_value_by_ids', 'iter', 'iter_data', 'iter_pairwise',
                                  'nonzero', 'sum', 'nnz', 'get_table_density', '__getitem__', '_get_row', '_get_col', '_cast_metadata',
                                  '_index_ids', '__init__', '_to_sparse', '_conv_to_self_type'],
                'biom/_filter.pyx': ['_filter', '_make_filter_array_general', '_remove_rows_csr'],
                'biom/_transform.pyx': ['_transform'], 'biom/_subsample.pyx': ['subsample', '_subsample_without_replacement',
                                                                             '_subsample_with_replacement'],
                'biom/err.py': ['errcheck', 'test']},
    'bounds': {'quick': {'start states': '2x2, <=1 explicit zero', 'sequences': 'depth 1 for all ops; depth 2 over a 6x6 sub-alphabet'},
               'thorough': {'start states': '2x2 (<=2 explicit zeros), 2x3, 3x2', 'sequences': 'depth 1 for all ops; all depth-2 sequences over a 19-op alphabet on 2x3; all depth-3 sequences over an 8-op alphabet on 2x2'}},
    'outside': ['sequences longer than 2 beyond what the inductive step implies', 'argument values outside the menu', 'larger tables',
                'random exploration beyond the bound (not part of this technique)'],
    'assumptions': ['Inv is the representation invariant assumed for pre-states and asserted for post-states',
                    'scipy.sparse / RNG / rankdata models', 'an operation that raises is not a coherence violation; the receiver must stay coherent'],
}
