"""C01 HDF5 (BIOM 2.x) write/read round trip is lossless."""
import datetime
from sx.harness import *      # noqa
from checks.h5spec import new_store
from sx.models import h5 as H5M

PROP = 'C01'
DATE = datetime.datetime(2021, 3, 4, 5, 6, 7, 891011)

ID_MENUS = {
    'ascii': (['b10', 'b9', 'c'], ['S2', 'S10', 'z']),
    'punct': (['a/x y', 'q"\\\'', '(;:)'], ['s 1', '#x', 'a\tb']),
    'greatest-is-short': (['a-much-longer-observation-id', 'mid/len', 'z'], ['Sample.number.one', 'T', 'Ua']),
    'nonascii': (['é-1', 'ü"q', 'β'], ['日本', 'naïve', 'x']),
}

MD_MENUS = {
    'none': lambda ids, ax: None,
    'text': lambda ids, ax: [{'env': 'e ' + i, 'barcode/seq': 'ACGT'[k % 4:] + 'T', 'flow mL/min/m2': ' padded ' + i} for k, i in enumerate(ids)],
    'numeric': lambda ids, ax: [{'depth': 1.5 * k, 'count': k + 1, 'flag': bool(k % 2), 'serial': 2 ** 53 + 1 + 2 * k} for k, i in enumerate(ids)],
    'taxonomy': lambda ids, ax: [{'taxonomy': (['k__A', ' p__' + i] if k != 1 else ['k__only ']), 'collapsed_ids': ['x' + i, ' ', 'y']}
                                 for k, i in enumerate(ids)],
    'taxonomy-with-null': lambda ids, ax: [{'taxonomy': (None if k == 0 else ['k__A', 'p__' + i])} for k, i in enumerate(ids)],
    'non-ascii-text': lambda ids, ax: [{'site': 'Zürich ' + i} for i in ids],
}


def _md_equal(got, exp):
    if got is None or exp is None:
        return got is None and exp is None
    return got == exp


def h_roundtrip(nr, nc, idk, mdk, zeros):
    b = B()
    oids, sids = ID_MENUS[idk]
    oids, sids = oids[:nr], sids[:nc]
    cells, dense = sym_matrix(nr, nc, zeros=zeros)
    data, indices, indptr, was_unsorted = build_csr(cells)
    from sx.harness import _arr
    m = b.csr((_arr(data), indices, indptr), shape=(nr, nc))
    omd = MD_MENUS[mdk](oids, 'observation')
    smd = MD_MENUS['text' if mdk == 'taxonomy' else mdk](sids, 'sample') if mdk not in ('taxonomy-with-null',) else None
    tid, typ = pick([(None, None), ('my table id', 'OTU table'), (None, 'Metabolite table')], 'table-id/type')
    # group metadata per axis: none, observation only, both, SAMPLE ONLY (C01-w7m1: the writer fell back to the sample axis'
    # entries when the observation axis had none) and an empty dict next to a populated axis
    _T = {'tree': ('newick', '((a,b),c);')}
    ogmd, sgmd = pick([(None, None), (_T, None), (dict(_T, graph=('json', '{"x": 1}')), {'rel': ('tsv', 'a\tb')}),
                       ({'tree': ('newick', '((\u00e9,\u03b2),\u4e2d);')}, None), (None, {'rel': ('tsv', 'a\tb')}),
                       ({}, {'rel': ('tsv', 'a\tb'), 'tree': ('newick', '(s,t);')})], 'group-md')
    kw = {}
    if ogmd is not None:
        kw['observation_group_metadata'] = dict(ogmd)
    if sgmd is not None:
        kw['sample_group_metadata'] = dict(sgmd)
    t = b.Table(m, list(oids), list(sids), omd, smd, table_id=tid, type=typ, **kw)
    if flag('csc-layout'):
        t._data = t._data.tocsc()
    a = ATM(oids, sids, dense, omd, smd, typ)
    compress = flag('compress')
    # writer / reader pairs: the methods, and the package-level save_table / load_table (open handle, or a path with
    # biom_open stubbed to hand over the store)
    wr, via = pick([('to_hdf5', 'from_hdf5'), ('to_hdf5', 'parse_biom_table'), ('save_table', 'load_table:handle'),
                    ('save_table', 'load_table:path')], 'writer/reader')
    sig = dict(ids=idk, md=mdk, reader=via)
    store = new_store()
    gen = 'verif "generator" 1.0'
    import sx.env as env
    P = env.module('biom.parse')
    if wr == 'to_hdf5':
        _, e = call(lambda: t.to_hdf5(store, gen, compress=compress, creation_date=DATE))
    else:
        _, e = call(lambda: P.save_table(t, store, generated_by=gen, compress=compress, creation_date=DATE))
    if e is not None:
        fail('write:raised', f"{type(e).__name__}: {e}"[:160], **sig)
        return
    if via == 'from_hdf5':
        t2, e = call(lambda: b.Table.from_hdf5(store))
    elif via == 'parse_biom_table':
        t2, e = call(lambda: P.parse_biom_table(store))
    elif via == 'load_table:handle':
        t2, e = call(lambda: P.load_table(store))
    else:
        # a path on the modelled file system (checks/fsmodel.py): biom_open sniffs the content and picks the HDF5 opener
        from checks import fsmodel
        U = env.module('biom.util')
        name = pick(['some/table.biom', 'table.biom.gz', 'table.txt'], 'file-name')
        fs = fsmodel.FS()
        fs.put(name, 'hdf5', store)
        fsmodel.install(U, fs, b.h5)
        P.biom_open = U.biom_open
        t2, e = call(lambda: P.load_table(name))
    if e is not None:
        fail('read:raised', f"{type(e).__name__}: {e}"[:160], **sig)
        return
    if via != 'load_table:path':
        # an open handle given by the caller stays the caller's: it can be read again afterwards
        _, e = call(lambda: b.Table.from_hdf5(store).shape)
        if e is not None:
            fail('read:handle-unusable-afterwards', f"{type(e).__name__}: {e}"[:160], **sig)
    got = observe(t2)
    same_table('roundtrip', got, a, type_=True, **sig)
    coherent('roundtrip:coherent', t2, **sig)
    if t2.table_id != (tid if tid else 'No Table ID'):
        fail('roundtrip:table-id', repr(t2.table_id), **sig)
    if t2.generated_by != gen:
        fail('roundtrip:generated-by', repr(t2.generated_by), **sig)
    if t2.create_date != DATE:
        fail('roundtrip:creation-date', repr(t2.create_date), **sig)
    for ax, g in (('observation', kw.get('observation_group_metadata')), ('sample', kw.get('sample_group_metadata'))):
        want = {k: v[1] for k, v in g.items()} if g else None
        if (t2.group_metadata(ax) or None) != want:
            fail('roundtrip:group-metadata', f"{ax}: {t2.group_metadata(ax)!r} vs {want!r}", **sig)
    same_table('roundtrip:source-unchanged', observe(t), a, type_=True, **sig)


def h_after_history(nr, nc, hist):
    """whatever operation history produced the table: representation states reached through the public API, then write / read"""
    b = B()
    t, a = make_table(nr, nc, md='both', zeros=1, type_='OTU table', late_zero=True)
    t, a = apply_history(t, a, hist)
    store = new_store()
    sig = dict(history=hist)
    _, e = call(lambda: t.to_hdf5(store, 'g', compress=flag('compress'), creation_date=DATE))
    if e is not None:
        fail('write:raised', f"{type(e).__name__}: {e}"[:160], **sig)
        return
    t2, e = call(lambda: b.Table.from_hdf5(store))
    if e is not None:
        fail('read:raised', f"{type(e).__name__}: {e}"[:160], **sig)
        return
    same_table('roundtrip', observe(t2), a, type_=True, **sig)
    coherent('roundtrip:coherent', t2, **sig)
    same_table('roundtrip:source-unchanged', observe(t), a, type_=True, **sig)


def h_compress_equivalence(nr, nc):
    """compress on/off write the same store except for the `compression` argument (model stores compared)"""
    t, a = make_table(nr, nc, md='both', zeros=1, type_='OTU table')
    t2 = a.twin()
    s1, s2 = new_store(), new_store()
    _, e1 = call(lambda: t.to_hdf5(s1, 'g', compress=True, creation_date=DATE))
    _, e2 = call(lambda: t2.to_hdf5(s2, 'g', compress=False, creation_date=DATE))
    if e1 is not None or e2 is not None:
        fail('compress:write-raised', repr(e1 or e2)[:160])
        return
    if B().mode != 'sym':
        return          # payload comparison works on the model store; replays only confirm the writes
    d1, d2 = H5M.dump(s1), H5M.dump(s2)
    if sorted(d1) != sorted(d2):
        fail('compress:different-objects', str(sorted(set(d1) ^ set(d2)))[:200])
        return
    claims = []
    for k in d1:
        x, y = d1[k], d2[k]
        if isinstance(x, tuple) and x[0] == 'dataset':
            if x[1:3] != y[1:3] or len(x[3]) != len(y[3]):
                fail('compress:dataset-differs', k)
                return
            for u, v in zip(x[3], y[3]):
                if is_sym(u) or is_sym(v):
                    claims.append(eq(u, v))
                elif u != v:
                    fail('compress:dataset-differs', k)
                    return
        elif repr(x) != repr(y):
            fail('compress:attr-differs', k)
    prove('compress:same-payload', and_(*claims))


HARNESSES = {'roundtrip': h_roundtrip, 'after_history': h_after_history, 'compress_equivalence': h_compress_equivalence}


def jobs(tier):
    out = []
    shapes = [(2, 2)] if tier == 'quick' else [(2, 2), (2, 3), (3, 2)]
    for nr, nc in shapes:
        for idk in ID_MENUS:
            for mdk in MD_MENUS:
                if tier == 'quick' and idk != 'ascii' and mdk not in ('none', 'text'):
                    continue
                out.append(('roundtrip', (nr, nc, idk, mdk, 1 if (idk == 'ascii' and mdk == 'none') else 0)))
        out.append(('compress_equivalence', (nr, nc)))
        for h in HISTORIES:
            if h != 'none':
                out.append(('after_history', (nr, nc, h)))
    if tier == 'quick':
        out.append(('roundtrip', (3, 3, 'greatest-is-short', 'none', 0)))
        out.append(('roundtrip', (2, 3, 'ascii', 'taxonomy', 0)))
        out.append(('roundtrip', (2, 2, 'nonascii', 'taxonomy', 0)))     # hierarchical lists whose longest entry is non-ASCII
    return out



# heavy shards are split into disjoint parts of their path tree (run in parallel; together exactly the unsplit exploration)
def slices(job, tier):
    h, a = job
    return 4 if h == 'roundtrip' and a[0] * a[1] >= 6 else 1

OPTS = {'quick': {'time_budget': 70}, 'thorough': {'time_budget': 900}}

META = {
    'explanation': "C01: Table.to_hdf5 into the h5py model followed by Table.from_hdf5 / parse_biom_table(handle): IDs in order, every matrix value "
                   "(solver: dense(result) == dense(source) term by term), per-ID metadata (text, numeric/bool, taxonomy / collapsed_ids lists incl. None, "
                   "category names with '/'), type, table id placeholder, generated-by, creation date and the text payload of every group-metadata entry; for "
                   "every sparsity pattern / stored-index order / explicit zeros / CSR-CSC layout, 4 ID menus (ASCII, punctuation, lengths where the "
                   "lexicographically greatest ID is short, non-ASCII), compress on/off (also proved to write the same payload).",
    'encoded': {'biom/table.py': ['to_hdf5', 'from_hdf5', 'general_formatter', 'vlen_list_of_str_formatter', 'general_parser', 'vlen_list_of_str_parser',
                                  'nnz', '__init__'], 'biom/parse.py': ['parse_biom_table', 'load_table', 'save_table'],
                'biom/util.py': ['biom_open', 'is_gzip']},
    'bounds': {'quick': {'shapes': '2x2 (+3x3 / 2x3 spot configurations)', 'metadata': '6 menus', 'ids': '4 menus'},
               'thorough': {'shapes': '2x2, 2x3, 3x2 x all menus'}},
    'outside': ['the real HDF5 library: string encodings it applies itself, NUL handling, compression filters, files on disk', 'the operating system under biom_open (replaced by checks/fsmodel.py)'
               '', 'ID / metadata text beyond the menus', 'bit-identity of float64 payloads through HDF5 (trusted: float64 stored exactly)'],
    'assumptions': ['h5py model contract: numeric arrays and byte strings are stored faithfully; vlen-str datasets read back as bytes, string attributes as str'],
}
