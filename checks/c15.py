"""C15 The validator accepts what the library writes and rejects structural corruption."""
import datetime
import json
from sx.harness import *      # noqa
from sx import text as T
from sx import core
from checks.h5spec import new_store
from checks.c02 import concretise, resolve

PROP = 'C15'
DATE = datetime.datetime(2021, 3, 4, 5, 6, 7, 891011)
VOCAB = ["OTU table", "Pathway table", "Function table", "Ortholog table", "Gene table", "Metabolite table", "Taxon table"]


def _validator():
    import sx.env as env
    TV = env.module('biom.cli.table_validator')
    return TV.TableValidator()


def h_written_json_is_valid(nr, nc, typ):
    """every JSON document the library writes for a vocabulary type is reported valid and loads to the declared content"""
    b = B()
    md = pick(['none', 'both'], 'md')
    t, a = make_table(nr, nc, md=md, zeros=1, type_=typ)
    sym = b.mode == 'sym'
    streamed = flag('direct_io')
    if streamed:        # the streamed form of the writer emits the document piecewise
        fh = T.SFile() if sym else __import__('io').StringIO()
        t.to_json('verif', direct_io=fh, creation_date=DATE)
        doc = fh.value() if sym else fh.getvalue()
    else:
        doc = t.to_json('verif', creation_date=DATE)
    if sym:
        text, holes = concretise(doc)
        parsed = resolve(json.loads(text), holes, [])
    else:
        parsed = json.loads(doc)
    r, e = call(lambda: _validator()._validate_json(table=parsed, format_version='1.0.0'))
    sig = dict(type=typ, streamed=int(streamed))
    if e is not None:
        fail('json:validator-raised', f"{type(e).__name__}: {e}"[:160], **sig)
        return
    if not r['valid_table']:
        fail('json:written-file-rejected', '; '.join(r['report_lines'])[:200], **sig)
        return
    # reported valid with a numeric element type: loads and yields the declared shape, ids and values
    t2, e = call(lambda: b.Table.from_json(parsed))
    if e is not None:
        fail('json:valid-but-unloadable', f"{type(e).__name__}: {e}"[:160], **sig)
        return
    if list(t2.shape) != parsed['shape']:
        fail('json:valid-but-wrong-shape', f"{t2.shape} vs {parsed['shape']}", **sig)
    exp = a.copy()
    same_table('json:valid-and-loads', observe(t2), exp, **sig)


def h_dense_json(nr, nc):
    """a (hand-made) dense document the validator accepts must load to the declared shape / values"""
    b = B()
    cells, dense = sym_matrix(nr, nc)
    oids, sids = ids_for(nr, 'observation'), ids_for(nc, 'sample')
    doc = {'id': None, 'format': 'Biological Observation Matrix 1.0.0', 'format_url': 'http://biom-format.org', 'type': 'OTU table',
           'generated_by': 'verif', 'date': DATE.isoformat(), 'matrix_type': 'dense', 'matrix_element_type': 'float',
           'shape': [nr, nc], 'data': [[(x if is_sym(x) else float(x)) for x in row] for row in dense],
           'rows': [{'id': o, 'metadata': None} for o in oids], 'columns': [{'id': s_, 'metadata': None} for s_ in sids]}
    r, e = call(lambda: _validator()._validate_json(table=doc, format_version='1.0.0'))
    if e is not None or not r['valid_table']:
        fail('dense:wellformed-rejected', repr(e or r['report_lines'])[:200])
        return
    t2, e = call(lambda: b.Table.from_json(doc))
    if e is not None:
        fail('dense:valid-but-unloadable', f"{type(e).__name__}: {e}"[:160])
        return
    same_table('dense:valid-and-loads', observe(t2), ATM(oids, sids, dense))


def h_written_hdf5_is_valid(nr, nc, typ):
    b = B()
    md = pick(['none', 'both'], 'md')
    t, a = make_table(nr, nc, md=md, zeros=1, type_=typ)
    origin = pick(['constructed', 'from_json', 'parse_biom_table:json', 'from_hdf5'], 'origin')
    if origin != 'constructed':       # the library also writes tables it has read itself (biom convert)
        from checks.ops import load_via
        t, e, a = load_via(origin, t, a, type_=typ)
        if e is not None:
            raise Abort()
    store = new_store()
    t.to_hdf5(store, 'verif', creation_date=DATE)
    via = pick(['_validate_hdf5', 'run', 'click-callback'], 'entry')
    if via in ('run', 'click-callback'):
        import contextlib
        import sx.env as env
        TV = env.module('biom.cli.table_validator')

        @contextlib.contextmanager
        def fake_open(fp, permission='r'):
            yield store
        TV.biom_open = fake_open
        TV.is_hdf5_file = lambda fp: True
        fv = pick([None, '2.1', '2.1.0'], 'format-version')
        if via == 'run':
            r, e = call(lambda: TV._validate_table('table.biom', fv))
            if e is None:
                r = {'valid_table': r[0], 'report_lines': r[1]}
        else:
            # the command itself: prints the report and a verdict line, exit status 0 for valid / 1 for not valid
            said = []
            TV.click = type('click', (), {'echo': staticmethod(lambda msg='', **k: said.append(str(msg)))})
            code, e = None, None
            try:
                TV.validate_table.callback('table.biom', fv)
            except SystemExit as ex:
                code = ex.code
            except Exception as ex:     # noqa
                e = ex
            verdict = said[-1] if said else ''
            r = {'valid_table': code == 0 and verdict == 'The input file is a valid BIOM-formatted file.',
                 'report_lines': [l for m_ in said[:-1] for l in m_.split('\n') if l] + ([] if code in (0, 1) else ['exit status %r' % (code,)])}
            if code == 0 and 'not a valid' in verdict or code == 1 and 'is a valid' in verdict:
                fail('hdf5:verdict-and-exit-status-disagree', f"{code} / {verdict}", type=typ)
    else:
        r, e = call(lambda: _validator()._validate_hdf5(table=store, format_version='2.1'))
    sig = dict(type=typ, entry=via, origin=origin)
    if e is not None:
        fail('hdf5:validator-raised', f"{type(e).__name__}: {e}"[:160], **sig)
    elif not r['valid_table']:
        fail('hdf5:written-file-rejected', '; '.join(r['report_lines'])[:200], **sig)
    elif any(not l.startswith('WARNING') and 'likely okay' not in l for l in r['report_lines']):
        fail('hdf5:written-file-complaints', '; '.join(r['report_lines'])[:200], **sig)


ATTRS = ['format-url', 'format-version', 'type', 'shape', 'nnz', 'generated-by', 'id', 'creation-date']
GROUPS = ['observation', 'sample', 'observation/matrix', 'sample/matrix', 'observation/metadata', 'sample/group-metadata']
DATASETS = ['observation/ids', 'observation/matrix/data', 'observation/matrix/indices', 'observation/matrix/indptr', 'sample/ids',
            'sample/matrix/data', 'sample/matrix/indices', 'sample/matrix/indptr']


def h_hdf5_mutations(kind):
    """the HDF5 validator never reports valid once a required attribute / group / dataset is gone or the shape disagrees"""
    b = B()
    t, a = make_table(2, 3, md='both', zeros=0, type_='OTU table', unsorted=False, layouts=('csr',))
    store = new_store()
    t.to_hdf5(store, 'verif', creation_date=DATE)
    what = None
    if kind == 'delete-attr':
        what = pick(ATTRS, 'attr')
        del store.attrs[what]
    elif kind == 'delete-group':
        what = pick(GROUPS, 'group')
        del store[what]
    elif kind == 'delete-dataset':
        what = pick(DATASETS, 'dataset')
        del store[what]
    elif kind == 'shape':
        import numpy as np
        what = pick([(3, 3), (2, 2), (0, 3), (2, 4)], 'shape')
        store.attrs['shape'] = np.array(what)
    elif kind == 'corrupt-attr':
        what, val = pick([('format-url', 'http://example.org'), ('format-version', (9, 9)), ('type', 'Soup table'),
                          ('nnz', -1), ('generated-by', ''), ('creation-date', 'yesterday')], 'attr')
        import numpy as np
        store.attrs[what] = np.array(val) if isinstance(val, tuple) else val
    r, e = call(lambda: _validator()._validate_hdf5(table=store, format_version='2.1'))
    valid = e is None and r['valid_table'] and not any('missing' in l.lower() or 'expected' in l for l in r['report_lines'])
    if valid:
        fail('hdf5:corruption-accepted', f"{kind} {what}: {r['report_lines']}", kind=kind, what=str(what))


HARNESSES = {'written_json_is_valid': h_written_json_is_valid, 'dense_json': h_dense_json, 'written_hdf5_is_valid': h_written_hdf5_is_valid,
             'hdf5_mutations': h_hdf5_mutations}


def jobs(tier):
    out = []
    for typ in VOCAB:
        out.append(('written_json_is_valid', (2, 2, typ)))
        out.append(('written_hdf5_is_valid', (2, 2, typ)))
    out.append(('written_json_is_valid', (1, 2, 'OTU table')))      # non-square: rows and columns cannot be mixed up unnoticed
    out.append(('written_hdf5_is_valid', (2, 1, 'OTU table')))
    if tier != 'quick':
        out.append(('written_json_is_valid', (2, 3, 'OTU table')))
        out.append(('written_hdf5_is_valid', (3, 2, 'OTU table')))
    for nr, nc in ([(2, 2), (2, 3)] if tier == 'quick' else [(2, 2), (2, 3), (3, 2), (3, 3)]):
        out.append(('dense_json', (nr, nc)))
    for k in ('delete-attr', 'delete-group', 'delete-dataset', 'shape', 'corrupt-attr'):
        out.append(('hdf5_mutations', (k,)))
    return out


def extra_engines(tier, seed):
    from checks import ch_runner
    return ch_runner.run('C15', tier, timeout=60 if tier == 'quick' else 240)


OPTS = {'quick': {'time_budget': 60}, 'thorough': {'time_budget': 600}}

MANIFEST = {
    'engine': 'crosshair+sx',
    'technique': 'CrossHair (symbolic execution of the real JSON validator with z3; shape and coordinates are unbounded symbolic ints, structural mutations by selector) + SX for writer->validator->reader and HDF5 store mutations',
}

META = {
    'explanation': "C15: (CrossHair) TableValidator._validate_json on a document whose declared shape and sparse coordinates are unbounded symbolic "
                   "ints, under each of 45 single structural mutations (delete / rename required keys, empty / missing / duplicated ids, non-object metadata, "
                   "row/column count vs shape, malformed / mistyped coordinates and values, element / matrix type swaps, corrupt date / format / url / type): "
                   "valid(doc) ==> P(doc) with P written from the property statement; and P(doc) ==> valid(doc) on the unmutated skeleton; the same implication with 0..2 ids per axis (empty axes). (SX) every JSON "
                   "document / HDF5 store the real writers emit (all 7 vocabulary types, all representation states, all-zero tables, tables that came out of from_json / parse_biom_table / from_hdf5; through _validate_hdf5 and through the command entry _validate_table with file sniffing / opening stubbed) is accepted, and an "
                   "accepted numeric document loads through the real from_json to the declared shape, ids and values (solver); hand-made dense documents; the HDF5 "
                   "validator under deletion of each required attribute / group / dataset and shape / attribute corruption.",
    'encoded': {'biom/cli/table_validator.py': ['_validate_table', 'run', '_validate_json', '_validate_hdf5', '_valid_sparse_data', '_valid_dense_data', '_valid_rows',
                                                '_valid_columns', '_valid_id', '_valid_metadata', '_valid_shape', '_valid_data', '_valid_type',
                                                '_valid_nnz', '_valid_format', '_valid_format_url', '_valid_date', '_valid_hdf5_metadata_v210',
                                                '_valid_matrix_type', '_valid_matrix_element_type', '_valid_generated_by', '_is_int'],
                'biom/table.py': ['to_json', 'to_hdf5', 'from_json', '_to_sparse']},
    'bounds': {'quick': {'crosshair': '45 single mutations x unbounded symbolic shape / coordinates (2 data entries)', 'sx': '2x2 tables, 7 types; dense 2x2, 2x3'},
               'thorough': {'crosshair': '+ all pairs of mutations'}},
    'outside': ['TableValidator.run file handling (is_hdf5_file / biom_open), real HDF5 files', 'element-type and index-range checks INSIDE HDF5 datasets (the HDF5 validator has none; '
                'the coordinate / element-type clauses are checked for JSON, where they are `data` triples)', 'BIOM 2.0 files'],
    'assumptions': ['CrossHair `Confirmed over all paths`', 'h5py model', 'message text (repr of offending values) is irrelevant: repr is stubbed in the validator module under CrossHair'],
}
