"""C19 Summaries and exports report the numbers that are in the matrix."""
from sx.harness import *      # noqa
from sx import text as T

PROP = 'C19'
AX = ('sample', 'observation')


def _nz(vec):
    return [x for x in vec if is_sym(x) or x != 0]


def _min(xs):
    best = xs[0]
    for v in xs[1:]:
        if bool(v < best):
            best = v
    return best


def _max(xs):
    best = xs[0]
    for v in xs[1:]:
        if bool(v > best):
            best = v
    return best


def _median(xs):
    ys = []
    for v in xs:
        k = len(ys)
        while k > 0 and bool(v < ys[k - 1]):
            k -= 1
        ys.insert(k, v)
    n = len(ys)
    return ys[n // 2] if n % 2 else (ys[n // 2 - 1] + ys[n // 2]) / 2.0


def h_summaries(nr, nc, zeros):
    t, a = make_table(nr, nc, md='none', zeros=zeros, type_='OTU table')
    sig = dict(explicit_zero=int(a.info['explicit_zero']), layout=a.info['layout'])
    first = pick(['sum', 'min', 'nonzero_counts', 'density'], 'asked-first')
    order = [first] + [x for x in ['sum', 'min', 'max', 'nonzero_counts', 'density', 'reduce', 'nonzero'] if x != first]
    for what in order:
        if what == 'sum':
            claims = [eq(t.sum('whole'), a.total())]
            for ax in AX:
                s = t.sum(ax)
                n = len(a.ids(ax))
                if len(s) != n:
                    fail('sum:shape', f"{ax}: {len(s)}", **sig)
                    continue
                claims += [eq(s[k], ssum(a.vec(ax, k))) for k in range(n)]
            prove('sum', and_(*claims), **sig)
        elif what in ('min', 'max'):
            ref = _min if what == 'min' else _max
            nonempty = {ax: all(_nz(a.vec(ax, k)) for k in range(len(a.ids(ax)))) for ax in AX}
            for ax in AX:
                if not nonempty[ax]:
                    continue            # only vectors with at least one non-zero entry
                r, e = call(lambda: getattr(t, what)(ax))
                if e is not None:
                    fail(what + ':raised', repr(e)[:120], axis=ax, **sig)
                    continue
                prove(what, and_(*[eq(r[k], ref(_nz(a.vec(ax, k)))) for k in range(len(a.ids(ax)))]), axis=ax, **sig)
            if nonempty['sample'] and nc:
                r, e = call(lambda: getattr(t, what)('whole'))
                allnz = [x for k in range(nc) for x in _nz(a.vec('sample', k))]
                if e is not None:
                    fail(what + ':raised', repr(e)[:120], axis='whole', **sig)
                else:
                    prove(what, eq(r, ref(allnz)), axis='whole', **sig)
        elif what == 'nonzero_counts':
            for ax in AX:
                r = t.nonzero_counts(ax)
                want = [len(_nz(a.vec(ax, k))) for k in range(len(a.ids(ax)))]
                if [int(x) for x in r] != want:
                    fail('nonzero_counts', f"{ax}: {list(r)} vs {want}", **sig)
                r2 = t.nonzero_counts(ax, binary=False)
                prove('nonzero_counts:non-binary', and_(*[eq(r2[k], ssum(a.vec(ax, k))) for k in range(len(want))]), **sig)
            r = t.nonzero_counts('whole')
            if int(r[0]) != sum(len(_nz(row)) for row in a.dense):
                fail('nonzero_counts:whole', str(r), **sig)
            r = t.nonzero_counts('whole', binary=False)
            prove('nonzero_counts:whole-non-binary', eq(r[0], a.total()), **sig)
        elif what == 'density':
            want = sum(len(_nz(row)) for row in a.dense) / float(nr * nc)
            if abs(t.get_table_density() - want) > 1e-12:
                fail('density', f"{t.get_table_density()} vs {want}", **sig)
        elif what == 'reduce':
            for ax in AX:
                r = t.reduce(lambda x, y: x + y, ax)
                prove('reduce', and_(*[eq(r[k], ssum(a.vec(ax, k))) for k in range(len(a.ids(ax)))]), axis=ax, **sig)
        elif what == 'nonzero':
            listed = sorted((str(o), str(s)) for o, s in t.nonzero())
            want = sorted((a.obs_ids[i], a.samp_ids[j]) for i in range(nr) for j in range(nc) if _nz([a.dense[i][j]]))
            if listed != want:
                fail('nonzero', f"{listed} vs {want}", **sig)
    same_table('summaries:input-unchanged', observe(t), a, **sig)


def h_stats(nr, nc, binary):
    import sx.env as env
    U = env.module('biom.util')
    t, a = make_table(nr, nc, md='none', zeros=1, type_='OTU table')
    r, e = call(lambda: U.compute_counts_per_sample_stats(t, binary))
    sig = dict(binary=int(binary))
    if e is not None:
        fail('stats:raised', repr(e)[:150], **sig)
        return
    mn, mx, med, mean, per = r
    counts = [(len(_nz(a.vec('sample', k))) if binary else ssum(a.vec('sample', k))) for k in range(nc)]
    if [str(k) for k in per] != a.samp_ids:
        fail('stats:ids', str(list(per)), **sig)
        return
    prove('stats:per-sample', and_(*[eq(per[s], c) for s, c in zip(per, counts)]), **sig)
    prove('stats:min-max-median-mean', and_(eq(mn, _min(counts)), eq(mx, _max(counts)), eq(med, _median(counts)),
                                            eq(mean, ssum(counts) / float(nc))), **sig)


# ------------------------------------------------------------------ summarize-table report
def _fmt(spec, v, grouping=True):
    if is_sym(v):
        return T.SText([T.Hole('num', spec + (',grouping' if grouping else ''), v)])
    import locale
    return locale.format_string(spec, v, grouping=grouping)


def _expected_report(a, qualitative, observations):
    if observations:
        a = a.transpose()
    nc, nr = len(a.samp_ids), len(a.obs_ids)
    counts = [(len(_nz(a.vec('sample', k))) if qualitative else a_float(ssum(a.vec('sample', k)))) for k in range(nc)]
    lines = []
    if observations:
        lines += ['Num samples: ' + _fmt('%d', nr), 'Num observations: ' + _fmt('%d', nc)]
    else:
        lines += ['Num samples: ' + _fmt('%d', nc), 'Num observations: ' + _fmt('%d', nr)]
    if not qualitative:
        lines.append('Total count: ' + _fmt('%d', ssum(counts)))
        lines.append('Table density (fraction of non-zero values): %1.3f' % (sum(len(_nz(r)) for r in a.dense) / float(nr * nc)))
    lines.append('')
    lines.append(('Sample/observations summary:' if observations else 'Observations/sample summary:') if qualitative
                 else 'Counts/sample summary:')
    lines.append(' Min: ' + _fmt('%1.3f', _min(counts)))
    lines.append(' Max: ' + _fmt('%1.3f', _max(counts)))
    lines.append(' Median: ' + _fmt('%1.3f', _median(counts)))
    lines.append(' Mean: ' + _fmt('%1.3f', ssum(counts) / float(nc)))
    lines.append(None)      # Std. dev.: numpy.std is opaque (not claimed)
    smd = '; '.join(a.samp_md[0].keys()) if a.samp_md else 'None provided'
    omd = '; '.join(a.obs_md[0].keys()) if a.obs_md else 'None provided'
    if observations:
        lines += [' Sample Metadata Categories: ' + omd, ' Observation Metadata Categories: ' + smd, '']
    else:
        lines += [' Sample Metadata Categories: ' + smd, ' Observation Metadata Categories: ' + omd, '']
    lines.append('Observations/sample detail:' if qualitative else 'Counts/sample detail:')
    order = []
    for k in range(nc):         # stable insertion sort by value, as sorted(key=itemgetter(1)) does
        p = len(order)
        while p > 0 and bool(counts[k] < counts[order[p - 1]]):
            p -= 1
        order.insert(p, k)
    for k in order:
        lines.append(a.samp_ids[k] + ': ' + _fmt('%1.3f', counts[k]))
    return lines


def a_float(x):
    return x if is_sym(x) else float(x)


def _parts(x):
    return x.parts if isinstance(x, T.SText) else [x]


def _same_line(got, exp):
    """literal chunks equal, number holes formatted with the same spec; returns (ok, [term equalities])"""
    g, e = _parts(got), _parts(exp)
    if len(g) != len(e):
        return False, []
    eqs = []
    for x, y in zip(g, e):
        if isinstance(x, str) or isinstance(y, str):
            if x != y:
                return False, []
        else:
            if (x.kind, x.spec) != (y.kind, y.spec):
                return False, []
            eqs.append(eq(x.term, y.term))
    return True, eqs


def h_report(nr, nc, qualitative, observations):
    import sx.env as env
    S = env.module('biom.cli.table_summarizer')
    t, a = make_table(nr, nc, md=pick(['none', 'both'], 'md'), zeros=1, type_='OTU table', unsorted=False)
    r, e = call(lambda: S._summarize_table(t, qualitative, observations))
    sig = dict(qualitative=int(qualitative), observations=int(observations))
    if e is not None:
        fail('report:raised', repr(e)[:150], **sig)
        return
    got = r.split('\n')
    exp = _expected_report(a, qualitative, observations)
    if len(got) != len(exp):
        fail('report:line-count', f"{len(got)} vs {len(exp)}", **sig)
        return
    eqs = []
    for k, (g, x) in enumerate(zip(got, exp)):
        if x is None:
            if not (isinstance(g, str) and g.startswith(' Std. dev.: ')) and not (isinstance(g, T.SText) and _parts(g)[0] == ' Std. dev.: '):
                fail('report:line', f"line {k}: {g!r}", **sig)
            continue
        ok, q = _same_line(g, x)
        if not ok:
            fail('report:line', f"line {k}: {g!r} vs {x!r}", **sig)
            return
        eqs += q
    prove('report:figures', and_(*eqs), **sig)


def h_cli_ids_head(nr, nc):
    """`biom table-ids` and `biom head` callbacks with file I/O and click.echo stubbed"""
    import sx.env as env
    Mi = env.module('biom.cli.table_ids')
    Mh = env.module('biom.cli.table_head')
    t, a = make_table(nr, nc, md='none', zeros=0, type_='OTU table', unsorted=False, layouts=('csr',))
    out = []

    class Echo:
        @staticmethod
        def echo(x=''):
            out.append(x)

        def __getattr__(self, k):
            import click
            return getattr(click, k)
    for M in (Mi, Mh):
        M.load_table = lambda fp: t
        M.click = Echo()
    observations = flag('observations')
    del out[:]
    Mi.summarize_table.callback(input_fp='x', observations=observations)
    want = a.obs_ids if observations else a.samp_ids
    if [str(x) for x in out] != want:
        fail('table-ids', f"{out} vs {want}", observations=int(observations))
    n = 1 + choice(nr, 'n')
    m = 1 + choice(nc, 'm')
    del out[:]
    _, e = call(lambda: Mh.head.callback(input_fp='x', output_fp=None, n_obs=n, n_samp=m))
    if e is not None or len(out) != 1:
        fail('head-cmd:raised', repr(e)[:150])
        return
    exp = a.select('observation', list(range(n))).select('sample', list(range(m)))
    lines = out[0].split('\n')
    want_lines = ['# Constructed from biom file', '#OTU ID\t' + '\t'.join(exp.samp_ids)]
    if [l for l in lines[:2]] != want_lines or len(lines) != 2 + n:
        fail('head-cmd:header', f"{lines[:2]} / {len(lines)} lines", n=n, m=m)
        return
    eqs = []
    for i in range(n):
        fields = lines[2 + i].split('\t')
        if len(fields) != m + 1 or fields[0] != exp.obs_ids[i]:
            fail('head-cmd:row', f"{lines[2 + i]!r}", n=n, m=m)
            return
        for j in range(m):
            f = fields[1 + j]
            if isinstance(f, T.SText):
                h = f.single_hole()
                if h is None or h.spec != 'str':
                    fail('head-cmd:value-format', repr(f), n=n, m=m)
                    return
                eqs.append(eq(h.term, exp.dense[i][j]))
            else:
                eqs.append(eq(float(f), exp.dense[i][j]))
    prove('head-cmd:values', and_(*eqs), n=n, m=m)


def h_dataframe(nr, nc, dense):
    """to_dataframe / metadata_to_dataframe: what is handed to pandas (recorder in symbolic runs, the real frame in replays)"""
    import numpy as np
    b = B()
    t, a = make_table(nr, nc, md='both', zeros=1, type_='OTU table')
    df, e = call(lambda: t.to_dataframe(dense=dense))
    sig = dict(dense=int(dense))
    if e is not None:
        fail('dataframe:raised', repr(e)[:150], **sig)
        return
    if b.mode == 'sym':
        idx, cols = [str(x) for x in df.index], [str(x) for x in df.columns]
        mat = [list(r) for r in df.data] if dense else dense_terms(df.data)
        if (df.kind == 'dense') != dense:
            fail('dataframe:kind', df.kind, **sig)
    else:
        idx, cols = [str(x) for x in df.index], [str(x) for x in df.columns]
        mat = np.asarray(df, dtype=float).tolist()
    if idx != a.obs_ids or cols != a.samp_ids:
        fail('dataframe:labels', f"{idx} / {cols}", **sig)
        return
    prove('dataframe:values', cells_equal(mat, a.dense), **sig)
    same_table('dataframe:input-unchanged', observe(t), a, **sig)
    for ax in ('observation', 'sample'):
        mdf, e = call(lambda: t.metadata_to_dataframe(ax))
        if e is not None:
            fail('metadata-dataframe:raised', repr(e)[:150], axis=ax)
            continue
        md = a.md(ax)
        want_cols, want_rows = [], []
        for k, v in md[0].items():
            if isinstance(v, (list, tuple)):
                want_cols += ['%s_%d' % (k, q) for q in range(len(v))]
            else:
                want_cols.append(k)
        for m in md:
            row = []
            for k, v in m.items():
                row += list(v) if isinstance(v, (list, tuple)) else [v]
            want_rows.append(row)
        if b.mode == 'sym':
            got_cols, got_rows, got_idx = list(mdf.columns), [list(r) for r in mdf.data], [str(x) for x in mdf.index]
        else:
            got_cols, got_rows, got_idx = list(mdf.columns), mdf.values.tolist(), [str(x) for x in mdf.index]
        if got_idx != a.ids(ax) or got_cols != want_cols or [[str(x) for x in r] for r in got_rows] != [[str(x) for x in r] for r in want_rows]:
            fail('metadata-dataframe:content', f"{ax}: {got_cols} {got_rows}", axis=ax)


def h_export_metadata(nr, nc):
    """biom export-metadata (_export_metadata): the exported text carries the table's metadata values, digit for digit"""
    import io
    import sx.env as env
    b = B()
    ME = env.module('biom.cli.metadata_exporter')
    t, a = make_table(nr, nc, md='both', zeros=0, unsorted=False, layouts=('csr',), type_='OTU table')
    extra = {'sample': lambda k: {'conc': 1234567.5 + k, 'ratio': 6.123456789 * (k + 1), 'count': 3 * k},
             'observation': lambda k: {'weight': 0.000123456789 * (k + 1), 'big': 2.5e+17 + k}}
    for ax in ('sample', 'observation'):
        t.add_metadata({i: extra[ax](k) for k, i in enumerate(a.ids(ax))}, axis=ax)
        for k in range(len(a.ids(ax))):
            a.md(ax)[k].update(extra[ax](k))
    for ax in ('sample', 'observation'):
        md = a.md(ax)
        want_cols, want_rows = [], []
        for k, v in md[0].items():
            want_cols += ['%s_%d' % (k, q) for q in range(len(v))] if isinstance(v, (list, tuple)) else [k]
        for m in md:
            row = []
            for k, v in m.items():
                row += list(v) if isinstance(v, (list, tuple)) else [v]
            want_rows.append(row)
        sig = dict(axis=ax)
        if b.mode == 'sym':
            from sx.models import pandas_stub as PS
            del PS.CSV_CALLS[:]
            _, e = call(lambda: ME._export_metadata(t, ax, 'in.biom', 'out.tsv'))
            if e is not None or len(PS.CSV_CALLS) != 1:
                fail('export-metadata:raised', f"{e!r} {len(PS.CSV_CALLS)} to_csv calls"[:150], **sig)
                continue
            frame, fp, args, kw = PS.CSV_CALLS[0]
            ok = (fp == 'out.tsv' and not args and kw == {'sep': '\t'}             # nothing that re-formats, selects or drops values
                  and [str(x) for x in frame.index] == a.ids(ax) and list(frame.columns) == want_cols
                  and [[str(x) for x in r] for r in frame.data] == [[str(x) for x in r] for r in want_rows])
            if not ok:
                fail('export-metadata:text', f"to_csv({fp!r}, {args}, {kw}) columns {list(frame.columns)}"[:200], **sig)
        else:
            buf = io.StringIO()
            _, e = call(lambda: ME._export_metadata(t, ax, 'in.biom', buf))
            if e is not None:
                fail('export-metadata:raised', repr(e)[:150], **sig)
                continue
            lines = buf.getvalue().rstrip('\n').split('\n')
            head = lines[0].split('\t')
            rows = [l.split('\t') for l in lines[1:]]
            ok = head[1:] == want_cols and [r[0] for r in rows] == a.ids(ax)
            for r, w in zip(rows, want_rows):
                for x, y in zip(r[1:], w):
                    ok = ok and ((float(x) == float(y)) if isinstance(y, (int, float)) and not isinstance(y, bool) else x == str(y))
            if not ok or len(rows) != len(want_rows):
                fail('export-metadata:text', f"{lines[:3]}"[:200], **sig)
    # a table without metadata on an axis: the command says so and writes nothing
    t0, _ = make_table(nr, nc, prefix='u', md='none', zeros=0, unsorted=False, layouts=('csr',))
    said = []
    ME.click = type('click', (), {'echo': staticmethod(lambda msg, **k: said.append(msg))})
    _, e = call(lambda: ME._export_metadata(t0, 'sample', 'in.biom', 'out.tsv' if b.mode == 'sym' else io.StringIO()))
    if e is not None or len(said) != 1 or 'does not contain sample metadata' not in said[0]:
        fail('export-metadata:no-metadata-message', f"{e!r} {said}"[:150])


HARNESSES = {'export_metadata': h_export_metadata, 'dataframe': h_dataframe, 'summaries': h_summaries, 'stats': h_stats, 'report': h_report, 'cli_ids_head': h_cli_ids_head}


def jobs(tier):
    out = [('export_metadata', (2, 2))]
    shapes = [(2, 3), (2, 2)] if tier == 'quick' else [(2, 3), (3, 2), (2, 2), (3, 3)]
    for nr, nc in shapes:
        out.append(('summaries', (nr, nc, 1 if nr * nc <= 4 or tier != 'quick' else 0)))
        for b in (False, True):
            out.append(('stats', (nr, nc, b)))
        for q in (False, True):
            for o in (False, True):
                out.append(('report', (nr, nc, q, o)))
        out.append(('cli_ids_head', (nr, nc)))
        for d in (True, False):
            out.append(('dataframe', (nr, nc, d)))
    return out



# heavy shards are split into disjoint parts of their path tree (run in parallel; together exactly the unsplit exploration)
def slices(job, tier):
    h, a = job
    return 3 if h in ('report', 'summaries', 'stats') and a[0] * a[1] >= 6 else (2 if h == 'summaries' else 1)

OPTS = {'quick': {'time_budget': 70}, 'thorough': {'time_budget': 900}}

META = {
    'explanation': "C19: sum / min / max / nonzero_counts / density / reduce / nonzero, util.compute_counts_per_sample_stats and every figure and "
                   "listed ID of the summarize-table report (quantitative, qualitative, per-observation; number holes compared by their terms before "
                   "formatting, detail lines in value order) and the table-ids / head command callbacks, what to_dataframe / metadata_to_dataframe hand to pandas and what export-metadata asks pandas to write, on every representation state of non-square "
                   "tables, with the accessors asked in different orders.",
    'encoded': {'biom/table.py': ['sum', 'min', 'max', 'nonzero_counts', 'get_table_density', 'reduce', 'nonzero', 'iter_data', 'head',
                                  'delimited_self', 'transpose'],
                'biom/util.py': ['compute_counts_per_sample_stats'], 'biom/cli/table_summarizer.py': ['_summarize_table'],
                'biom/cli/table_ids.py': ['summarize_table'], 'biom/cli/table_head.py': ['head']},
    'bounds': {'quick': {'shapes': '2x3, 2x2 (<=1 explicit zero)'}, 'thorough': {'shapes': '2x3, 3x2, 2x2, 3x3'}},
    'outside': ['what pandas does with the matrix / labels / rows it is handed (to_dataframe and metadata_to_dataframe are checked up to the pandas call; a recorder stands in for pandas in symbolic runs)', 'export-metadata (to_csv)', 'numpy.std (opaque hole)',
                'rounding performed by %1.3f / %d rendering (figures are compared as terms before formatting)', 'click option parsing and real files'],
    'assumptions': ['locale.format_string and % formatting yield one token per number (symbolic text holes)', 'numpy min/max/mean/median = their textbook definitions'],
}
