"""Concrete cross-validation of one CrossHair condition on plain CPython (see ch_runner._xval).
usage: python -m checks.ch_xval <module> <function>   -> one JSON line"""
import importlib
import inspect
import itertools
import json
import re
import sys


def main(modname, name):
    m = importlib.import_module(modname)
    f = getattr(m, name)
    doc = inspect.getdoc(f) or ''
    pres = [l.strip()[4:].strip() for l in doc.splitlines() if l.strip().startswith('pre:')]
    params = list(inspect.signature(f).parameters)
    nums = [int(x) for p in pres for x in re.findall(r'-?\d+', p)]
    if not params or not nums:
        return {'skipped': 'no finite domain'}
    lo, hi = min(nums) - 1, max(nums) + 1
    if (hi - lo + 1) ** len(params) > 20000:
        return {'skipped': 'domain too large'}
    sat = []
    for vals in itertools.product(range(lo, hi + 1), repeat=len(params)):
        env = dict(zip(params, vals))
        if all(eval(p, {}, env) for p in pres):
            sat.append(vals)
            if len(sat) > 300:
                return {'skipped': 'more than 300 satisfying assignments'}
    # an assignment on the edge of the scanned box means the domain is not closed inside it (unbounded parameter)
    if any(v in (lo, hi) for vals in sat for v in vals):
        return {'skipped': 'unbounded parameter'}
    bad = [vals for vals in sat if not f(*vals)]
    return {'evaluated': len(sat), 'false_at': bad[:3]}


if __name__ == '__main__':
    print(json.dumps(main(sys.argv[1], sys.argv[2])))
