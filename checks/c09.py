"""C09 Merge is the pointwise sum over the union/intersection of IDs."""
from sx.harness import *      # noqa
from sx.harness import _arr

PROP = 'C09'
MODES = ('union', 'intersection')


def id_patterns(ids, new):
    """other-operand ID lists relative to the receiver's ids: identical, reordered, partial, nested, disjoint"""
    a, z = ids[0], ids[-1]
    pats = {'identical': list(ids), 'reversed': list(ids)[::-1], 'partial': [a, new[0]], 'new-first': [new[0], z],
            'disjoint': [new[0], new[1]], 'nested': [z], 'superset': [new[0]] + list(ids)[::-1]}
    return pats


def dense_table(oids, sids, prefix, md):
    b = B()
    nr, nc = len(oids), len(sids)
    dense = [[var(f"{prefix}_{i}_{j}", nonzero=True) for j in range(nc)] for i in range(nr)]
    m = b.csr((_arr([dense[i][j] for i in range(nr) for j in range(nc)]), [j for i in range(nr) for j in range(nc)],
               [i * nc for i in range(nr + 1)]), shape=(nr, nc))
    omd = [{'taxonomy': ['k__x', 'o_' + o], 'src': prefix} for o in oids] if md in ('both', 'obs') else None
    smd = [{'env': 'o_' + s, 'src': prefix} for s in sids] if md in ('both', 'samp') else None
    t = b.Table(m, list(oids), list(sids), omd, smd, type='OTU table')
    return t, ATM(oids, sids, dense, omd, smd, 'OTU table')


def custom_f(x, y):
    return {'a': None if x is None else sorted(dict(x)), 'b': None if y is None else sorted(dict(y)), 'n': (x is not None) + (y is not None)}


def prefer_self_ref(x, y):
    return x if x is not None else y


def expected(a, ao, smode, omode, f_s, f_o):
    def ids(x, y, mode):
        if mode == 'union':
            return list(x) + [i for i in y if i not in x]
        return [i for i in x if i in y]
    oids = ids(a.obs_ids, ao.obs_ids, omode)
    sids = ids(a.samp_ids, ao.samp_ids, smode)

    def cell(atm, o, s):
        if o in atm.obs_ids and s in atm.samp_ids:
            return atm.dense[atm.obs_ids.index(o)][atm.samp_ids.index(s)]
        return 0.0
    dense = [[cell(a, o, s) + cell(ao, o, s) for s in sids] for o in oids]

    def md(ax, idlist, f):
        if f is None:
            return None
        out = []
        for i in idlist:
            x = a.md(ax)[a.ids(ax).index(i)] if a.md(ax) is not None and i in a.ids(ax) else None
            y = ao.md(ax)[ao.ids(ax).index(i)] if ao.md(ax) is not None and i in ao.ids(ax) else None
            out.append(f(x, y))
        return out
    return ATM(oids, sids, dense, md('observation', oids, f_o), md('sample', sids, f_s), None)


def compare_unordered(label, got, exp, **sig):
    if sorted(got.obs_ids) != sorted(exp.obs_ids):
        fail(label + ':obs-id-set', f"{sorted(got.obs_ids)} vs {sorted(exp.obs_ids)}", **sig)
        return False
    if sorted(got.samp_ids) != sorted(exp.samp_ids):
        fail(label + ':samp-id-set', f"{sorted(got.samp_ids)} vs {sorted(exp.samp_ids)}", **sig)
        return False
    po = [got.obs_ids.index(o) for o in exp.obs_ids]
    ps = [got.samp_ids.index(s) for s in exp.samp_ids]
    g = got.select('observation', po).select('sample', ps)
    return same_table(label, g, exp, ids=True, **sig)


QUICK_PATTERNS = ('nested', 'partial', 'reversed', 'disjoint', 'superset')


def h_merge(nr, nc, smode, omode, md_cfg, fkind, zeros=1, light=False):
    b = B()
    md_self, md_other = md_cfg
    if light:
        t, a = make_table(nr, nc, md=md_self, zeros=zeros, type_='OTU table', unsorted=False)
    else:
        # the receiver's own ids need not be in sorted order (the fast path places operands at sorted-union positions)
        kw_ids = dict(obs_ids=ids_for(nr, 'observation')[::-1], samp_ids=ids_for(nc, 'sample')[::-1]) if flag('receiver-ids-descending') else {}
        t, a = make_table(nr, nc, md=md_self, zeros=zeros, type_='OTU table', **kw_ids)
    po = id_patterns(a.obs_ids, ['n1', 'n2'])
    ps = id_patterns(a.samp_ids, ['m1', 'm2'])
    if light:
        po = {k: v for k, v in po.items() if k in QUICK_PATTERNS}
        ps = {k: v for k, v in ps.items() if k in QUICK_PATTERNS}
    ko = pick(sorted(po), 'obs-pattern')
    ks = pick(sorted(ps), 'samp-pattern')
    other, ao = dense_table(po[ko], ps[ks], 'w', md_other)
    kw = {}
    f_s = f_o = prefer_self_ref
    if fkind == 'custom':
        kw = dict(sample_metadata_f=custom_f, observation_metadata_f=custom_f)
        f_s = f_o = custom_f
    elif fkind == 'none':
        kw = dict(sample_metadata_f=None, observation_metadata_f=None)
        f_s = f_o = None
    exp = expected(a, ao, smode, omode, f_s, f_o)
    # with no metadata on an axis in either operand there is no "operands' metadata" to merge: not compared
    if a.obs_md is None and ao.obs_md is None:
        exp.obs_md = None
    if a.samp_md is None and ao.samp_md is None:
        exp.samp_md = None
    skip_md = (a.obs_md is None and ao.obs_md is None, a.samp_md is None and ao.samp_md is None)
    fast = ((md_self == 'none' and md_other == 'none') or fkind == 'none') and smode == omode == 'union'
    sig = dict(sample=smode, observation=omode, path='fast' if fast else 'general', mdcfg=f"{md_self}/{md_other}", f=fkind)
    e = None
    try:
        res = t.merge(other, sample=smode, observation=omode, **kw)
    except (Abort, Unsupported):
        raise
    except Exception as ex:     # noqa
        e = ex
    if not exp.obs_ids or not exp.samp_ids:
        if e is None and not res.is_empty():
            fail('merge:empty-intersection', 'non-empty result', **sig)
        return
    if e is not None:
        fail('merge:raised', f"{type(e).__name__}: {e}"[:200], **sig)
        return
    got = observe(res)
    if skip_md[0]:
        got.obs_md = None
    if skip_md[1]:
        got.samp_md = None
    coherent('merge:coherent', res, **sig)
    compare_unordered('merge', got, exp, **sig)
    if smode == omode == 'union':
        prove('merge:grand-total', eq(res.sum('whole'), a.total() + ao.total()), **sig)
    same_table('merge:receiver-unchanged', observe(t), a, **sig)
    same_table('merge:argument-unchanged', observe(other), ao, **sig)


def h_merge_list(nr, nc):
    """the list form (k operands, metadata-free): pointwise sum over the union"""
    t, a = make_table(nr, nc, md='none', zeros=1, type_='OTU table')
    po = id_patterns(a.obs_ids, ['n1', 'n2'])
    ps = id_patterns(a.samp_ids, ['m1', 'm2'])
    o1, a1 = dense_table(po[pick(sorted(po), 'obs1')], ps['partial'], 'w', 'none')
    o2, a2 = dense_table(po['new-first'], ps[pick(sorted(ps), 'samp2')], 'x', 'none')
    form = pick(['list', 'tuple'], 'form')
    e = raises(lambda: t.merge((o1, o2) if form == 'tuple' else [o1, o2]))
    if e is not None:
        fail('merge-list:raised', f"{type(e).__name__}: {e}"[:200], form=form)
        return
    res = t.merge((o1, o2) if form == 'tuple' else [o1, o2])
    exp = expected(expected(a, a1, 'union', 'union', None, None), a2, 'union', 'union', None, None)
    compare_unordered('merge-list', observe(res), exp)
    prove('merge-list:grand-total', eq(res.sum('whole'), a.total() + a1.total() + a2.total()))


def h_fast_vs_general(nr, nc):
    """metadata-free union/union (fast path) against the general path forced by dummy receiver metadata"""
    t, a = make_table(nr, nc, md='none', zeros=1, type_='OTU table')
    po = id_patterns(a.obs_ids, ['n1', 'n2'])
    ps = id_patterns(a.samp_ids, ['m1', 'm2'])
    other, ao = dense_table(po[pick(sorted(po), 'obs-pattern')], ps[pick(sorted(ps), 'samp-pattern')], 'w', 'none')
    fast = t.merge(other)
    t2 = a.twin()
    t2.add_metadata({i: {'dummy': 1} for i in a.samp_ids}, axis='sample')
    general = t2.merge(other)
    g = observe(general)
    g.samp_md = g.obs_md = None
    compare_unordered('fast-vs-general', observe(fast), g)


HARNESSES = {'merge': h_merge, 'merge_list': h_merge_list, 'fast_vs_general': h_fast_vs_general}


def jobs(tier):
    out = []
    shapes = [(2, 2)] if tier == 'quick' else [(2, 2), (2, 3), (3, 2)]
    for nr, nc in shapes:
        for sm in MODES:
            for om in MODES:
                for md_cfg in (('none', 'none'), ('both', 'none'), ('none', 'both'), ('both', 'both'), ('samp', 'obs'),
                               ('none', 'obs'), ('none', 'samp')):
                    for fk in ('default', 'custom', 'none'):
                        if fk == 'none' and not (sm == om == 'union'):
                            continue        # documented only as the fast-merge switch
                        if tier == 'quick' and md_cfg in (('none', 'obs'), ('none', 'samp')) and (fk != 'default' or not (sm == om == 'union')):
                            continue        # metadata on one axis of the other operand only: decides the path selection
                        if tier == 'quick' and fk == 'custom' and md_cfg in (('samp', 'obs'),):
                            continue
                        out.append(('merge', (nr, nc, sm, om, md_cfg, fk, 0 if tier == 'quick' else 1, tier == 'quick' and md_cfg != ('none', 'none'))))
        out.append(('merge_list', (nr, nc)))
        out.append(('fast_vs_general', (nr, nc)))
    return out



# heavy shards are split into disjoint parts of their path tree (run in parallel; together exactly the unsplit exploration)
def slices(job, tier):
    h, a = job
    if h == 'merge' and not a[7]:
        return 4
    return 3 if h == 'fast_vs_general' else 1

OPTS = {'quick': {'time_budget': 60}, 'thorough': {'time_budget': 900}}

META = {
    'explanation': "C09: Table.merge (general path and _fast_merge) on a receiver in every representation state and a second operand over 7x7 "
                   "ID-overlap/order patterns (receiver ids in ascending or descending order), 4 union/intersection modes, metadata on neither/either/both operands or on one axis of the other operand only, default/custom/None merge functions; "
                   "result cell = sum of operand cells (solver), ID sets, grand total, metadata = merge function of the operands' metadata; list "
                   "form with 3 operands; fast path vs general path.",
    'encoded': {'biom/table.py': ['merge', '_fast_merge', '_union_id_order', '_intersect_id_order', '_conv_to_self_type', '_to_sparse',
                                  'nparray_to_sparse', 'list_sparse_to_sparse', 'data', 'exists', 'nnz', '__init__'],
                'biom/util.py': ['prefer_self']},
    'bounds': {'quick': {'receiver': '2x2, <=1 explicit zero, all index orders, CSR/CSC', 'other': '1..3 ids per axis, dense symbolic',
                         'values': 'unbounded reals'},
               'thorough': {'receiver': '2x2, 2x3, 3x2'}},
    'outside': ['order of result IDs (not part of the property)', 'exactly one None merge function', 'None merge functions with intersection modes',
                'list form with metadata', 'IEEE rounding of the sums'],
    'assumptions': ['scipy.sparse model (COO duplicate summing on tocsr validated each run)'],
}
