"""C02 JSON (BIOM 1.0) writer emits well-formed JSON that reads back exactly."""
import datetime
import json
import re
from sx.harness import *      # noqa
from sx import text as T
from sx import core
from q import fmt as QF, strlang as QS

PROP = 'C02'
DATES = [datetime.datetime(2021, 3, 4, 5, 6, 7, 891011), datetime.datetime(2021, 1, 1, 0, 0, 0)]
SAFE = re.compile(r'^[^"\\\x00-\x1f]*$')

ID_MENUS = {
    'plain': (['b10', 'b9', 'c'], ['S2', 'S10', 'z']),
    'nasty': (['q"uote', 'back\\slash', 'ctl\x01\ttab'], ['é/ü', '{"a":[1,2,]} ,}', 'new\nline']),
}
MD_MENUS = {
    'none': lambda ids: None,
    'mixed': lambda ids: [{'taxonomy': ['k__A', 'p__"' + i], 'n': k, 'f': 0.5 * k, 'none': None, 'nested': [[1, 2 ** 53 + 3], ['x']], 'serial': 2 ** 53 + 1 + 2 * k} for k, i in enumerate(ids)],
    'numpy-scalars': 'numpy',
    'strings-with-quotes': lambda ids: [{'note': 'say "hi" \\ ' + i + '\n'} for i in ids],
}


def _md(kind, ids):
    if kind == 'numpy-scalars':
        import numpy as np
        return [{'i64': np.int64(k + 1), 'f64': np.float64(k + 0.25), 'arr': np.array([k, k + 1])} for k, i in enumerate(ids)]
    return MD_MENUS[kind](ids)


def _plain(md):
    """what metadata must look like after a JSON round trip"""
    import numpy as np

    def conv(v):
        if isinstance(v, np.generic):
            return v.item()
        if isinstance(v, np.ndarray):
            return v.tolist()
        if isinstance(v, (list, tuple)):
            return [conv(x) for x in v]
        return v
    return None if md is None else [{k: conv(v) for k, v in m.items()} for m in md]


# ------------------------------------------------------------------ symbolic document -> concrete JSON text with sentinels
def concretise(doc):
    """replace holes by unique sentinels; returns (text, {sentinel: hole})"""
    parts = doc.parts if isinstance(doc, T.SText) else [doc]
    out, holes = [], {}
    for p in parts:
        if isinstance(p, str):
            out.append(p)
        elif p.kind == 'num':
            k = 900000001 + len(holes)
            holes[k] = p
            out.append(str(k))
        elif p.kind == 'raw':
            k = '@@H%d@@' % len(holes)
            holes[k] = p
            out.append(k)
        else:
            k = '@@J%d@@' % len(holes)        # output of the json encoder: a complete, correctly escaped string token
            holes[k] = p
            out.append('"' + k + '"')
    return ''.join(out), holes


def resolve(x, holes, obligations, where=''):
    if isinstance(x, dict):
        return {k: resolve(v, holes, obligations, where + '/' + k) for k, v in x.items()}
    if isinstance(x, list):
        return [resolve(v, holes, obligations, where) for v in x]
    if isinstance(x, int) and x in holes:
        obligations.append(('num', holes[x], where))
        return core.SNum(holes[x].term.z) if isinstance(holes[x].term, core.SNum) else holes[x].term
    if isinstance(x, str) and '@@H' in x:
        for k, h in holes.items():
            if isinstance(k, str) and k in x:
                obligations.append(('raw-in-string' if h.kind == 'raw' else 'json-encoded', h, where))
        return x
    return x


def _varname(term):
    z = term.z if isinstance(term, core.SNum) else term
    try:
        import z3
        if z3.is_const(z):
            return str(z)
    except Exception:   # noqa
        pass
    return None


# shortest-repr texts in and out of exponent notation, exponents ending in 0, denormals, 17 significant digits (plain enumeration facet)
VALUE_MENU = [1e-10, 3e+20, 1e+300, -2.5e-30, 1e-07, 1.5e+17, 5e-324, 123456789.12345679, 0.1, 3.0, -0.0001, 1e+16]


def h_json(nr, nc, idk, mdk, header, direct, reader='from_json', value_menu=False):
    b = B()
    sym = b.mode == 'sym'
    oids, sids = ID_MENUS[idk]
    oids, sids = oids[:nr], sids[:nc]
    if value_menu:
        dense = [[VALUE_MENU[choice(len(VALUE_MENU), f'value{i}{j}')] for j in range(nc)] for i in range(nr)]
        cells = [list(r) for r in dense]
        data, indices, indptr = [v for r in dense for v in r], [j for r in dense for j in range(nc)], [i * nc for i in range(nr + 1)]
    else:
        cells, dense = sym_matrix(nr, nc, zeros=1)
        data, indices, indptr, _ = build_csr(cells)
    from sx.harness import _arr
    m = b.csr((_arr(data), indices, indptr), shape=(nr, nc))
    omd, smd = _md(mdk, oids), _md('none' if mdk == 'numpy-scalars' else mdk, sids)
    date = DATES[choice(2, 'date')]
    if header == 'symbolic':
        tid, gen, typ = T.raw('tid', None, 4), T.raw('gen', None, 4), T.raw('typ', None, 4)
    else:
        tid, gen, typ = pick([None, 'table-7'], 'tid'), 'verif gen', pick([None, 'OTU table'], 'type')
    t = b.Table(m, list(oids), list(sids), omd, smd, table_id=tid, type=typ)
    if flag('csc-layout'):
        t._data = t._data.tocsc()
    all_zero = not any(c is not None and c != 'Z' for r in cells for c in r)
    sig = dict(direct_io=int(direct), header=header)
    # ---- write
    if direct:
        fh = T.SFile() if sym else __import__('io').StringIO()
        _, e = call(lambda: t.to_json(gen, direct_io=fh, creation_date=date))
        doc = None if e is not None else (fh.value() if sym else fh.getvalue())
    else:
        doc, e = call(lambda: t.to_json(gen, creation_date=date))
    if e is not None:
        fail('json:write-raised', f"{type(e).__name__}: {e}"[:160], **sig)
        return
    # ---- well-formedness and what each interpolated value went through
    obligations = []
    if sym:
        text, holes = concretise(doc)
        try:
            parsed = json.loads(text)
        except ValueError as ex:
            fail('json:malformed', f"{ex}: ...{text[max(0, getattr(ex, 'pos', 0) - 30):getattr(ex, 'pos', 0) + 30]!r}", **sig)
            return
        parsed = resolve(parsed, holes, obligations)
        for kind, h, where in obligations:
            if kind == 'num' and h.spec not in ('str', 'repr'):
                st, w, secs = QF.inexact_witness(h.spec)
                if st == 'inexact':
                    nm = _varname(h.term)
                    fail('json:value-not-exact', f"matrix value written with {h.spec}: e.g. {w!r} -> {h.spec % w}", _values={nm: w} if nm else None,
                         spec=h.spec, **sig)
                elif st == 'unknown':
                    raise Unsupported(f"number format {h.spec}: FP query inconclusive")
            if kind == 'raw-in-string':
                st, w, secs = QS.unsafe_witness()
                if st == 'unsafe':
                    nm = _varname(h.term)
                    fail('json:raw-string-interpolated', f"{where} is interpolated without escaping: {w!r} breaks the document", _values={nm: w} if nm else None,
                         field=where, **sig)
    else:
        try:
            parsed = json.loads(doc)
        except ValueError as ex:
            unsafe = [x for x in (tid, gen, typ) if isinstance(x, str) and not SAFE.match(x)]
            fail('json:raw-string-interpolated' if unsafe else 'json:malformed', str(ex)[:120], **sig)
            return
        for nm_, v, key in (('tid', tid, 'id'), ('gen', gen, 'generated_by'), ('typ', typ, 'type')):
            if header == 'symbolic' and parsed.get(key) != v:
                fail('json:raw-string-interpolated', f"{key}: {parsed.get(key)!r} vs {v!r}", **sig)
    # ---- read back: the decoded document through from_json, or the text through the package-level readers (whose JSON
    # decoder is the standard library's: it is stubbed to hand over `parsed`, the text itself was checked above)
    if reader == 'from_json':
        t2, e = call(lambda: b.Table.from_json(parsed))
    else:
        import contextlib
        import sx.env as env
        P = env.module('biom.parse')

        def _hooked(doc_, k):
            """what the decoder's documented hooks (parse_int / parse_float / parse_constant) would have made of the document"""
            pi, pf = k.get('parse_int'), k.get('parse_float')
            if not (pi or pf):
                return doc_

            def walk(x):
                if isinstance(x, dict):
                    return {kk: walk(v) for kk, v in x.items()}
                if isinstance(x, list):
                    return [walk(v) for v in x]
                if isinstance(x, bool) or x is None or isinstance(x, (str, T.SText)) or is_sym(x):
                    return x
                if isinstance(x, int) and pi:
                    return pi(str(x))
                if isinstance(x, float) and pf:
                    return pf(repr(x))
                return x
            return walk(doc_)

        class _J:
            loads = staticmethod(lambda text, **k: _hooked(parsed, k))
            load = staticmethod(lambda fh, **k: _hooked(parsed, k))
        # symbolic text cannot go through the C decoder (it hands over the document checked above); concrete runs -- replays and
        # the fallback of paths on which the reader pre-processes the text -- use the real one
        P.json = _J if sym else json
        if reader == 'parse_table:text':
            t2, e = call(lambda: P.parse_biom_table(doc))
        elif reader == 'parse_table:lines':
            t2, e = call(lambda: P.parse_biom_table([doc]))
        elif reader == 'load_table:fs':
            # a path on the (modelled) file system: plain or gzip-compressed, under names with and without a .gz suffix --
            # biom_open decides by the content, not by the name
            from checks import fsmodel
            U = env.module('biom.util')
            kind = pick(['text', 'gzip'], 'file-content')
            name = pick(fsmodel.FILE_NAMES, 'file-name')
            fs = fsmodel.FS()
            fs.put(name, kind, (lambda: T.SFile([doc])) if sym else (lambda: __import__('io').StringIO(doc)))
            fsmodel.install(U, fs, b.h5)
            P.biom_open = U.biom_open
            sig = dict(sig, content=kind, name=name)
            t2, e = call(lambda: P.load_table(name))
        else:
            fh2 = T.SFile([doc]) if sym else __import__('io').StringIO(doc)
            if reader == 'parse_table:handle':
                t2, e = call(lambda: P.parse_biom_table(fh2))
            else:
                @contextlib.contextmanager
                def fake_open(fp, permission='r'):
                    yield fh2
                P.biom_open = fake_open
                t2, e = call(lambda: P.load_table('some/table.biom'))
    sig = dict(sig, reader=reader)
    if e is not None:
        fail('json:reload-raised', f"{type(e).__name__}: {e}"[:160], all_zero=int(all_zero), **sig)
        return
    exp = ATM(oids, sids, dense, _plain(omd), _plain(smd), typ if header != 'symbolic' else None)
    got = observe(t2)
    if sym or header != 'symbolic':
        if header == 'symbolic':
            got.type = None
        same_table('json:roundtrip', got, exp, type_=True, **sig)
    if not sym or value_menu:
        # exactness: every value must come back bit-identical (no tolerance)
        bad = [(i, j, got.dense[i][j], dense[i][j]) for i in range(nr) for j in range(nc) if float(got.dense[i][j]) != float(dense[i][j])]
        if bad:
            fail('json:value-not-exact', str(bad[:2]), **sig)
    if header != 'symbolic':
        if t2.generated_by != gen:
            fail('json:generated-by', repr(t2.generated_by), **sig)
        if t2.create_date != date:
            fail('json:creation-date', f"{t2.create_date!r} vs {date!r}", **sig)
    note('doc-head', repr(doc)[:160])
    return parsed


def h_stream_equals_string(nr, nc, mdk):
    """the direct_io form emits the same document (equal parsed objects) as the returned string"""
    b = B()
    t, a = make_table(nr, nc, md='none', zeros=1, type_='OTU table')
    if mdk != 'none':
        t.add_metadata({i: m for i, m in zip(a.obs_ids, _md(mdk, a.obs_ids))}, axis='observation')
    date = DATES[0]
    sym = b.mode == 'sym'
    fh = T.SFile() if sym else __import__('io').StringIO()
    s1 = t.to_json('g', creation_date=date)
    t2 = a.twin()
    if mdk != 'none':
        t2.add_metadata({i: m for i, m in zip(a.obs_ids, _md(mdk, a.obs_ids))}, axis='observation')
    t2.to_json('g', direct_io=fh, creation_date=date)
    s2 = fh.value() if sym else fh.getvalue()
    if sym:
        x1, h1 = concretise(s1)
        x2, h2 = concretise(s2)
        try:
            p1, p2 = json.loads(x1), json.loads(x2)
        except ValueError as ex:
            fail('stream:malformed', str(ex)[:100])
            return
        o1, o2 = [], []
        p1, p2 = resolve(p1, h1, o1), resolve(p2, h2, o2)
        if [h.spec for _, h, _ in o1] != [h.spec for _, h, _ in o2]:
            fail('stream:different-number-formats', f"{[h.spec for _, h, _ in o1]} vs {[h.spec for _, h, _ in o2]}")
            return
    else:
        try:
            p1, p2 = json.loads(s1), json.loads(s2)
        except ValueError as ex:
            fail('stream:malformed', str(ex)[:100])
            return
    d1, d2 = p1.pop('data'), p2.pop('data')
    if json.dumps(p1, sort_keys=True, default=str) != json.dumps(p2, sort_keys=True, default=str):
        fail('stream:documents-differ', '')
        return
    if len(d1) != len(d2) or any(x[:2] != y[:2] for x, y in zip(d1, d2)):
        fail('stream:data-entries-differ', f"{len(d1)} vs {len(d2)}")
        return
    prove('stream:same-values', and_(*[eq(x[2], y[2]) for x, y in zip(d1, d2)]))


HARNESSES = {'json': h_json, 'stream_equals_string': h_stream_equals_string}


def jobs(tier):
    out = []
    shapes = [(2, 2), (2, 3)] if tier == 'quick' else [(2, 2), (2, 3), (3, 2), (3, 3)]
    for nr, nc in shapes:
        for direct in (False, True):
            if tier != 'quick' or nr * nc <= 4:
                out.append(('json', (nr, nc, 'plain', 'none', 'symbolic', direct)))
            for idk in ID_MENUS:
                for mdk in MD_MENUS:
                    if tier == 'quick' and (idk, mdk) not in (('plain', 'none'), ('nasty', 'mixed'), ('plain', 'numpy-scalars'),
                                                              ('nasty', 'strings-with-quotes')):
                        continue
                    if tier == 'quick' and nr * nc > 4 and (idk, mdk) != ('nasty', 'mixed'):
                        continue
                    out.append(('json', (nr, nc, idk, mdk, 'concrete', direct)))
        if nr * nc <= 4 or tier != 'quick':
            for reader in ('parse_table:text', 'parse_table:lines', 'parse_table:handle', 'load_table:path', 'load_table:fs'):
                out.append(('json', (nr, nc, 'nasty', 'mixed', 'concrete', False, reader)))
        for mdk in ('none', 'mixed'):
            out.append(('stream_equals_string', (nr, nc, mdk)))
    for direct in (False, True):
        out.append(('json', (1, 2, 'plain', 'none', 'concrete', direct, 'from_json', True)))
    return out


OPTS = {'quick': {'time_budget': 70, 'timeout_ms': 30000}, 'thorough': {'time_budget': 900, 'timeout_ms': 60000}}

META = {
    'explanation': "C02: both code paths of the real Table.to_json run under SX with symbolic matrix values and symbolic table id / generated-by / "
                   "type strings; the emitted document is a symbolic text (literal chunks + holes recording the conversion applied to every interpolated "
                   "value). It must parse as JSON whatever the holes contain; every number hole's conversion is checked for exactness by a z3 Float64 "
                   "query (two distinct doubles rendered to the same decimal), every raw string hole inside a JSON string by a z3 string-language query; the "
                   "parsed document is fed to the real from_json and compared (IDs incl. quotes/backslashes/control characters/non-ASCII, nested / null / numpy "
                   "metadata, type, generated-by, creation date, every value by the solver); streamed and returned forms must parse to equal documents; the text is also read through parse_table (text / list of lines / handle) and load_table on a modelled file system (plain or gzip content under names with and without .gz); a concrete value facet covers shortest-repr texts in and out of exponent notation.",
    'encoded': {'biom/table.py': ['to_json', 'from_json', 'default', '_to_sparse', 'list_list_to_sparse', 'iter', '__getitem__'],
                'biom/parse.py': ['parse_biom_table', 'load_table'], 'biom/util.py': ['biom_open', 'is_gzip']},
    'bounds': {'quick': {'shapes': '2x2 all sparsity patterns / index orders, <=1 explicit zero', 'header strings': 'symbolic, |s| <= 4'},
               'thorough': {'shapes': '2x2, 2x3, 3x2; all id x metadata menus'}},
    'outside': ['the json C codec for IDs / metadata (json.dumps is the real one on concrete values)', 'gzip decompression and the operating system under biom_open (replaced by checks/fsmodel.py: content kind x file name)', 'str()/repr() of a double reads back '
                'exactly (shortest-repr axiom) -- only fixed-precision conversions are queried'],
    'assumptions': ['CPython %-formatting is correctly rounded', 'z3 Float64 / sequence theories'],
}
