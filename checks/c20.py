"""C20 The error-handling profile is honoured and scoped."""
import warnings
from sx.harness import *      # noqa

PROP = 'C20'
KINDS = ['empty', 'obssize', 'sampsize', 'obsdup', 'sampdup', 'obsmdsize', 'sampmdsize']
STATES = ['ignore', 'warn', 'raise', 'call', 'print']
MSG = {'empty': "Empty table!", 'obssize': "Number of observation IDs differs from matrix size!",
       'sampsize': "Number of sample IDs differs from matrix size!", 'obsdup': "Duplicate observation IDs",
       'sampdup': "Duplicate sample IDs!", 'obsmdsize': "Size of observation metadata differs from matrix size!",
       'sampmdsize': "Size of sample metadata differs from matrix size!"}


def _trigger_args(kind, dense):
    """constructor arguments that trigger exactly `kind` (None: nothing) on a 2x2 matrix"""
    oids, sids, omd, smd = ['o1', 'o2'], ['s1', 's2'], None, None
    if kind in ('obsmdsize', 'sampmdsize'):
        bad = pick([[{'a': 1}, {'a': 2}, {'a': 3}], [{'a': 1}], [], [None, None, None], [{}, {}, {}], [None]], 'metadata-length-variant')
        if kind == 'obsmdsize':
            return oids, sids, list(bad), smd
        return oids, sids, omd, list(bad)
    if kind == 'obssize':
        oids = ['o1', 'o2', 'o3']
    elif kind == 'sampsize':
        sids = ['s1']
    elif kind == 'obsdup':
        oids = ['o1', 'o1']
    elif kind == 'sampdup':
        sids = ['s2', 's2']
    elif kind == 'obsmdsize':
        omd = [{'a': 1}, {'a': 2}, {'a': 3}]
    elif kind == 'sampmdsize':
        smd = [{'a': 1}]
    return oids, sids, omd, smd


def h_reaction(kind, state, site):
    """the configured reaction is what happens, at each errcheck call site (constructor, filter, update_ids, collapse)"""
    import io
    import sys
    b = B()
    E = b.E
    X = b.X
    default = {'empty': 'ignore', 'obssize': 'raise', 'sampsize': 'raise', 'obsdup': 'raise', 'sampdup': 'raise',
               'obsmdsize': 'raise', 'sampmdsize': 'raise'}
    E.seterr(**default)
    cells, dense = sym_matrix(2, 2, dense_only=True)
    from sx.harness import _arr
    m = lambda: b.csr((_arr([dense[0][0], dense[0][1], dense[1][0], dense[1][1]]), [0, 1, 0, 1], [0, 2, 4]), shape=(2, 2))     # noqa
    called = []
    old_cb = E.seterrcall(kind, lambda t: called.append(t) or 'callback-result')
    E.seterr(**{kind: state})
    triggering = flag('triggering')
    sig = dict(kind=kind, state=state, site=site, triggering=int(triggering))
    out = io.StringIO()
    real_stdout = E.stdout
    E.stdout = out              # biom.err binds sys.stdout at import time
    try:
        with warnings.catch_warnings(record=True) as w:
            warnings.simplefilter('always')
            if site == 'constructor':
                if kind == 'empty':
                    args = ([], [], None, None) if triggering else (['o1', 'o2'], ['s1', 's2'], None, None)
                    if not triggering and flag('all-zero-matrix'):
                        import numpy as np          # a table without any count is not an empty table (it has ids on both axes)
                        mk = lambda: b.Table(np.zeros((2, 2)), *args)      # noqa
                    else:
                        mk = (lambda: b.Table([], [], [])) if triggering else (lambda: b.Table(m(), *args))
                else:
                    if triggering and kind in ('obssize', 'sampsize'):
                        # no input triggers ONLY a size kind: the duplicate-id test (shape vs number of distinct ids) fires on every
                        # id-count mismatch and comes first in the profile's sorted order -- outside "exactly that one kind"
                        raise Abort()
                    args = _trigger_args(kind if triggering else None, dense)
                    mk = lambda: b.Table(m(), args[0], args[1], args[2], args[3])      # noqa
                res, e = call(mk)
            elif site == 'filter':
                if kind != 'empty':
                    raise Abort()
                t = b.Table(m(), ['o1', 'o2'], ['s1', 's2'])
                keep = [] if triggering else ['s1']
                res, e = call(lambda: t.filter(keep, axis='sample', inplace=flag('inplace')))
            elif site == 'update_ids':
                if kind not in ('obsdup', 'sampdup'):
                    raise Abort()
                t = b.Table(m(), ['o1', 'o2'], ['s1', 's2'])
                ax = 'observation' if kind == 'obsdup' else 'sample'
                ids = ['o1', 'o2'] if kind == 'obsdup' else ['s1', 's2']
                new = {ids[0]: 'same', ids[1]: 'same'} if triggering else {ids[0]: 'x', ids[1]: 'y'}
                res, e = call(lambda: t.update_ids(new, axis=ax, inplace=False))
            elif site == 'collapse':
                if kind != 'empty':
                    raise Abort()
                t = b.Table(m(), ['o1', 'o2'], ['s1', 's2'])
                if triggering:
                    t = t.filter([], axis='sample', inplace=False) if state != 'raise' else None
                    if t is None:
                        raise Abort()
                    called[:] = []
                    out.truncate(0)
                    out.seek(0)
                    w[:] = []
                res, e = call(lambda: t.collapse(lambda i, md: 'g', norm=False, axis='observation'))
            msgs = [str(x.message) for x in w]
    finally:
        E.stdout = real_stdout
        E.seterrcall(kind, old_cb)
        E.seterr(**default)
    printed = out.getvalue()
    if not triggering:
        if e is not None:
            fail('reaction:spurious-error', repr(e)[:120], **sig)
        if called or MSG[kind] in printed or any(MSG[kind] in x for x in msgs):
            fail('reaction:spurious-reaction', f"{called} {printed!r} {msgs}", **sig)
        return
    if state == 'raise':
        if not isinstance(e, X.TableException):
            fail('reaction:raise', f"expected TableException, got {e!r}", **sig)
        return
    if e is not None and not (site == 'collapse' and state != 'raise'):
        fail('reaction:should-pass', f"{state}: raised {e!r}"[:150], **sig)
        return
    if state == 'warn' and not any(MSG[kind] in x for x in msgs):
        fail('reaction:warn', f"warnings: {msgs}", **sig)
    if state == 'print' and (MSG[kind] + '\n') not in printed:
        fail('reaction:print', f"stdout: {printed!r}", **sig)
    if state == 'call':
        if len(called) < 1:
            fail('reaction:call', "callback not invoked", **sig)
        elif not isinstance(called[0], b.Table):
            fail('reaction:call-argument', repr(called[0])[:80], **sig)
    if state == 'ignore' and (called or MSG[kind] in printed or any(MSG[kind] in x for x in msgs)):
        fail('reaction:ignore', f"{called} {printed!r} {msgs}", **sig)
    if state != 'call' and called:
        fail('reaction:unexpected-callback', state, **sig)
    if state != 'print' and MSG[kind] in printed:
        fail('reaction:unexpected-print', state, **sig)
    if state != 'warn' and any(MSG[kind] in x for x in msgs):
        fail('reaction:unexpected-warning', state, **sig)


HARNESSES = {'reaction': h_reaction}


def jobs(tier):
    out = []
    for k in KINDS:
        for s in STATES:
            out.append(('reaction', (k, s, 'constructor')))
    for s in STATES:
        out.append(('reaction', ('empty', s, 'filter')))
        out.append(('reaction', ('empty', s, 'collapse')))
        out.append(('reaction', ('obsdup', s, 'update_ids')))
        out.append(('reaction', ('sampdup', s, 'update_ids')))
    return out


def extra_engines(tier, seed):
    from checks import ch_runner
    return ch_runner.run('C20', tier)


OPTS = {'quick': {'time_budget': 60}, 'thorough': {'time_budget': 600}}

MANIFEST = {
    'engine': 'crosshair+sx',
    'technique': 'CrossHair (symbolic execution of the real biom/err.py with z3) over selector-encoded programs against a reference scoped-stack model; SX for the reaction matrix at the errcheck call sites',
}

META = {
    'explanation': "C20: (CrossHair) sequences of seterr / seterr(all) / refused seterr / errstate (unknown kind alone or after a valid entry, unknown reaction, one good + one bad entry) / errstate "
                   "blocks (nested, left normally or by an exception, with `all`) are encoded by symbolic int selectors and run on the real biom.err; after every "
                   "step geterr() must equal a reference model of a scoped configuration stack; each shard must come back `Confirmed over all paths`. seterrcall / "
                   "geterrcall per kind. (SX) the reaction matrix 7 kinds x 5 reactions x triggering / non-triggering input at every errcheck call site "
                   "(constructor, filter, update_ids, collapse) with warnings, stdout and the callback captured (matrix values symbolic).",
    'encoded': {'biom/err.py': ['seterr', 'geterr', 'seterrcall', 'geterrcall', 'errcheck', 'errstate', 'state', 'test', '_handle_error', 'setcall',
                                'getcall', '_create_error_states', '_zz_test_empty', '_test_obssize', '_test_sampsize', '_test_obsdup', '_test_sampdup',
                                '_test_obsmdsize', '_test_sampmdsize'],
                'biom/table.py': ['__init__', 'filter', 'update_ids', 'collapse']},
    'bounds': {'quick': {'programs': 'all 1-step, all 2-step sequences, all 1-level nestings (8 step kinds x 7 kinds x 5 reactions per step)'},
               'thorough': {'programs': '+ 3-step programs with a nested block (sharded)'}},
    'outside': ['programs deeper than the stated depth', 'reactions of kinds registered by third parties', 'inputs triggering several kinds at once (the profile stops at the first kind in sorted order)'],
    'assumptions': ['CrossHair: `Confirmed over all paths` is its claim of exhaustiveness for the int selector space of a shard'],
}
