"""Operation catalogue: the C05 alphabet with a finite argument menu (used by C05 and C07).

Each entry: name -> (arity, inplace_capable, fn(b, t, other, a, ao, inplace) -> result | list of results).
`a`/`ao` are the ATMs of receiver / second operand (only used to pick argument values such as ID subsets).
No reference semantics live here: C05 checks invariants + accessor agreement on whatever comes back, C07 checks
purity and in-place equivalence; the per-operation oracles are in the property-specific checks (C06, C08-C13).
"""
import numpy as np
from sx.harness import B, ATM, Abort, call, is_sym      # noqa


def _half(ids):
    return list(ids[::2])


def _rename(ids, tag):
    return {x: f"{tag}{k}-{x}" for k, x in enumerate(ids)}


def _md_for(ids, key='added'):
    return {x: {key: 'm' + x} for x in ids[:-1]} | {'unknown-id': {key: 'zzz'}}


def _label(i, m):
    return 'g' + str(len(str(i)) % 2)


def _double(v, i, m):
    return v * 2


def _zero_first(v, i, m):
    v = v.copy()
    if len(v):
        v[0] = 0
    return v


OPS = {}


def op(name, arity=1, inplace=False, menu=None):
    def deco(fn):
        OPS[name] = {'arity': arity, 'inplace': inplace, 'fn': fn}
        return fn
    return deco


for _ax in ('sample', 'observation'):
    for _inv in (False, True):
        op(f'filter-ids:{_ax}:{"invert" if _inv else "keep"}', inplace=True)(
            lambda b, t, o, a, ao, inplace, ax=_ax, inv=_inv: t.filter(_half(a.ids(ax)), axis=ax, invert=inv, inplace=inplace))
    op(f'filter-pred:{_ax}', inplace=True)(
        lambda b, t, o, a, ao, inplace, ax=_ax: t.filter(lambda v, i, m: v.sum() > 0, axis=ax, inplace=inplace))
    op(f'remove_empty:{_ax}', inplace=True)(
        lambda b, t, o, a, ao, inplace, ax=_ax: t.remove_empty(axis=ax, inplace=inplace))
    op(f'sort:{_ax}')(lambda b, t, o, a, ao, inplace, ax=_ax: t.sort(axis=ax))
    op(f'sort_order:{_ax}')(lambda b, t, o, a, ao, inplace, ax=_ax: t.sort_order(list(a.ids(ax))[::-1], axis=ax))
    op(f'update_ids:{_ax}:strict', inplace=True)(
        lambda b, t, o, a, ao, inplace, ax=_ax: t.update_ids(_rename(a.ids(ax), 'r'), axis=ax, strict=True, inplace=inplace))
    op(f'update_ids:{_ax}:partial', inplace=True)(
        lambda b, t, o, a, ao, inplace, ax=_ax: t.update_ids({a.ids(ax)[0]: 'q'}, axis=ax, strict=False, inplace=inplace))
    op(f'update_ids:{_ax}:partial-collision', inplace=True)(
        lambda b, t, o, a, ao, inplace, ax=_ax: t.update_ids({a.ids(ax)[0]: a.ids(ax)[-1]}, axis=ax, strict=False, inplace=inplace))
    op(f'update_ids:{_ax}:partial-chain', inplace=True)(       # a new name that is the current name of an id renamed by the same mapping
        lambda b, t, o, a, ao, inplace, ax=_ax: t.update_ids(
            ({a.ids(ax)[0]: a.ids(ax)[1], a.ids(ax)[1]: 'zz9'} if len(a.ids(ax)) > 1 else {a.ids(ax)[0]: 'zz9'}),
            axis=ax, strict=False, inplace=inplace))
    op(f'update_ids:{_ax}:swap', inplace=True)(                # the new names are a permutation of the old ones
        lambda b, t, o, a, ao, inplace, ax=_ax: t.update_ids(
            dict(zip(a.ids(ax), list(a.ids(ax))[1:] + list(a.ids(ax))[:1])), axis=ax, strict=True, inplace=inplace))
    op(f'add_metadata:{_ax}')(lambda b, t, o, a, ao, inplace, ax=_ax: (t.add_metadata(_md_for(a.ids(ax)), axis=ax), t)[1])
    op(f'del_metadata:{_ax}')(lambda b, t, o, a, ao, inplace, ax=_ax: (t.del_metadata(keys=['taxonomy', 'env'], axis=ax), t)[1])
    op(f'transform:{_ax}', inplace=True)(
        lambda b, t, o, a, ao, inplace, ax=_ax: t.transform(_double, axis=ax, inplace=inplace))
    op(f'transform-zeroing:{_ax}', inplace=True)(
        lambda b, t, o, a, ao, inplace, ax=_ax: t.transform(_zero_first, axis=ax, inplace=inplace))
    op(f'norm:{_ax}', inplace=True)(lambda b, t, o, a, ao, inplace, ax=_ax: t.norm(axis=ax, inplace=inplace))
    op(f'rankdata:{_ax}', inplace=True)(lambda b, t, o, a, ao, inplace, ax=_ax: t.rankdata(axis=ax, inplace=inplace))
    op(f'subsample-by-id:{_ax}')(lambda b, t, o, a, ao, inplace, ax=_ax: t.subsample(1, axis=ax, by_id=True, seed=0))
    op(f'collapse:{_ax}')(lambda b, t, o, a, ao, inplace, ax=_ax: t.collapse(_label, norm=False, axis=ax))
    op(f'collapse-norm:{_ax}')(lambda b, t, o, a, ao, inplace, ax=_ax: t.collapse(_label, norm=True, axis=ax))
    op(f'partition:{_ax}')(lambda b, t, o, a, ao, inplace, ax=_ax: [p for _, p in t.partition(_label, axis=ax)])
    op(f'concat:{_ax}', arity=2)(lambda b, t, o, a, ao, inplace, ax=_ax: t.concat([o], axis=ax))
def _sibling(b, t, ax, a):
    # a second table built from the first one's matrix object, then modified in place
    s_ = b.Table(t.matrix_data, list(a.obs_ids), list(a.samp_ids))
    s_.filter(_half(a.ids(ax)), axis=ax, inplace=True)
    s_.transform(_double, axis=ax, inplace=True)
    return s_


for _ax in ('sample', 'observation'):
    op(f'sibling-from-matrix_data:{_ax}')(lambda b, t, o, a, ao, inplace, ax=_ax: _sibling(b, t, ax, a))
def _wrapper_concat(b, tables, ax):
    import sx.env as env
    return env.module('biom').concat(tables, axis=ax)


for _ax in ('sample', 'observation'):
    op(f'concat-wrapper-single:{_ax}')(lambda b, t, o, a, ao, inplace, ax=_ax: _wrapper_concat(b, [t], ax))
    op(f'concat-wrapper:{_ax}', arity=2)(lambda b, t, o, a, ao, inplace, ax=_ax: _wrapper_concat(b, [t, o], ax))
op('del_metadata:whole')(lambda b, t, o, a, ao, inplace: (t.del_metadata(axis='whole'), t)[1])
op('pa', inplace=True)(lambda b, t, o, a, ao, inplace: t.pa(inplace=inplace))
op('head')(lambda b, t, o, a, ao, inplace: t.head(1, 2))
op('transpose')(lambda b, t, o, a, ao, inplace: t.transpose())
op('copy')(lambda b, t, o, a, ao, inplace: t.copy())
op('remove_empty:whole', inplace=True)(lambda b, t, o, a, ao, inplace: t.remove_empty(axis='whole', inplace=inplace))
for _s in ('union', 'intersection'):
    for _o in ('union', 'intersection'):
        op(f'merge:{_s}:{_o}', arity=2)(lambda b, t, o, a, ao, inplace, s=_s, oo=_o: t.merge(o, sample=s, observation=oo))
op('align_to', arity=2)(lambda b, t, o, a, ao, inplace: t.align_to(o, axis='detect'))
for _m in ('both', 'sample', 'observation'):
    op(f'align_to-already-aligned:{_m}', arity=2)(lambda b, t, o, a, ao, inplace, m=_m: t.align_to(o, axis=m))

# counts-only operations (integer data): subsample by counts
COUNT_OPS = {}
for _ax in ('sample', 'observation'):
    for _wr in (False, True):
        COUNT_OPS[f'subsample:{_ax}:{"replace" if _wr else "noreplace"}'] = {
            'arity': 1, 'inplace': False,
            'fn': (lambda b, t, o, a, ao, inplace, ax=_ax, wr=_wr: t.subsample(2, axis=ax, with_replacement=wr, seed=1))}


# ------------------------------------------------------------------------------------------------ tables that come from a reader
LOAD_ORIGINS = ('from_json', 'parse_biom_table:json', 'from_tsv', 'parse_biom_table:tsv', 'from_hdf5', 'parse_biom_table:hdf5')


def atm_json_doc(a, type_='OTU table'):
    """the BIOM 1.0 document (as a decoded object) describing the abstract table a"""
    nr, nc = len(a.obs_ids), len(a.samp_ids)
    return {'id': None, 'format': 'Biological Observation Matrix 1.0.0', 'format_url': 'http://biom-format.org',
            'type': type_, 'generated_by': 'verif', 'date': '2021-03-04T05:06:07', 'matrix_type': 'sparse',
            'matrix_element_type': 'float', 'shape': [nr, nc],
            'data': [[i, j, a.dense[i][j]] for i in range(nr) for j in range(nc) if is_sym(a.dense[i][j]) or a.dense[i][j] != 0],
            'rows': [{'id': o, 'metadata': (dict(a.obs_md[k]) if a.obs_md else None)} for k, o in enumerate(a.obs_ids)],
            'columns': [{'id': o, 'metadata': (dict(a.samp_md[k]) if a.samp_md else None)} for k, o in enumerate(a.samp_ids)]}


def load_via(origin, t0, a, type_='OTU table'):
    """(table, error, abstract table): the table a reader hands back for the content of t0 / a -- what `biom convert` then writes.
    JSON text and TSV sniffing are not the subject here (C02 / C03): the JSON decoder is stubbed to hand over the document."""
    import datetime
    import sx.env as env
    from checks.h5spec import new_store
    P = env.module('biom.parse')
    b = B()
    if origin in ('from_json', 'parse_biom_table:json'):
        doc = atm_json_doc(a, type_)
        if origin == 'from_json':
            t, e = call(lambda: b.Table.from_json(doc))
        else:
            class _J:
                loads = staticmethod(lambda text, **k: doc)
                load = staticmethod(lambda fh, **k: doc)
            P.json = _J
            t, e = call(lambda: P.parse_biom_table('{"the": "document"}'))
        return t, e, a
    if origin in ('from_tsv', 'parse_biom_table:tsv'):
        if a.obs_md is not None or a.samp_md is not None:
            raise Abort()          # the classic format carries no such metadata (C03 covers what it does carry)
        lines = t0.to_tsv().split('\n')
        if origin == 'from_tsv':
            t, e = call(lambda: b.Table.from_tsv(lines, None, None, lambda x: x))
        else:
            class _NJ:      # a classic table starts with '#': the JSON decoder refuses it
                @staticmethod
                def loads(text, **k):
                    raise ValueError("Expecting value: line 1 column 1 (char 0)")
            P.json = _NJ
            t, e = call(lambda: P.parse_biom_table(lines))
        return t, e, ATM(a.obs_ids, a.samp_ids, a.dense, None, None, None)
    store = new_store()
    t0.to_hdf5(store, 'first', creation_date=datetime.datetime(2021, 3, 4, 5, 6, 7))
    t, e = call(lambda: P.parse_biom_table(store) if origin == 'parse_biom_table:hdf5' else b.Table.from_hdf5(store))
    return t, e, a
