"""C11 Partition is an exact split; collapse conserves what it aggregates."""
import itertools
from sx.harness import *      # noqa

PROP = 'C11'
AX = ('sample', 'observation')


def _md_key(axis):
    return 'n' if axis == 'observation' else 'depth'


LABELERS = {
    'id-parity': lambda i, m: 'p%d' % (sum(map(ord, str(i))) % 2),
    'md-value': lambda i, m: 'm%d' % (int(m.get('n', m.get('depth', 0))) % 2),
    'constant': lambda i, m: 'all',
    'injective': lambda i, m: 'g-' + str(i),
    'list-valued': lambda i, m: ['k', 'x%d' % (len(str(i)) % 2)],
    'zero-or-one': lambda i, m: int(len(str(i)) % 2),          # falsy, non-None labels
    'none-for-some': lambda i, m: None if str(i).startswith(('b1', 'S1')) else 'kept',
}


def _hashable(x):
    return tuple(x) if isinstance(x, list) else x


def groups_of(a, axis, labeler, ignore_none):
    """reference partition: label -> positions (first-seen label order)"""
    out = {}
    md = a.md(axis)
    for k, i in enumerate(a.ids(axis)):
        lab = _hashable(labeler(i, None if md is None else md[k]))
        if ignore_none and lab is None:
            continue
        out.setdefault(lab, []).append(k)
    return out


def h_partition(nr, nc, axis, lname, remove_empty=False, zeros=1, md='both'):
    if remove_empty:
        t, a = make_table(nr, nc, md=md, zeros=0, type_='OTU table', unsorted=False, layouts=('csr',))
    else:
        t, a = make_table(nr, nc, md=md, zeros=zeros, type_='OTU table')
    ignore_none = flag('ignore_none')
    labeler = LABELERS[lname]
    sig = dict(axis=axis, labeler=lname, ignore_none=int(ignore_none))
    parts, e = call(lambda: list(t.partition(labeler, axis=axis, remove_empty=remove_empty, ignore_none=ignore_none)))
    if e is not None:
        fail('partition:raised', repr(e)[:150], **sig)
        return
    exp = groups_of(a, axis, labeler, ignore_none)
    if [p for p, _ in parts] != list(exp):
        fail('partition:labels', f"{[p for p, _ in parts]} vs {list(exp)}", **sig)
        return
    for lab, tab in parts:
        e_atm = a.select(axis, exp[lab])
        if remove_empty:
            for ax in ('sample', 'observation'):
                keep = [k for k in range(len(e_atm.ids(ax))) if any(is_sym(x) or x != 0 for x in e_atm.vec(ax, k))]
                e_atm = e_atm.select(ax, keep)
        same_table('partition:part', observe(tab), e_atm, type_=True, **sig)
        coherent('partition:coherent', tab, **sig)
    same_table('partition:input-unchanged', observe(t), a, type_=True, **sig)


def h_partition_dict(nr, nc, axis):
    t, a = make_table(nr, nc, md='both', zeros=0, type_='OTU table')
    ids = a.ids(axis)
    form = pick(['id-to-group', 'group-to-ids', 'group-to-ids-tuple'], 'form')
    covered = ids if flag('covers-all') else ids[:-1]
    lab = {i: 'G%d' % (k % 2) for k, i in enumerate(covered)}
    if form == 'id-to-group':
        f = dict(lab)
    else:
        f = {}
        for i, g in lab.items():
            f.setdefault(g, []).append(i)
        if form.endswith('tuple'):
            f = {g: tuple(v) for g, v in f.items()}
    ignore_none = flag('ignore_none')
    parts, e = call(lambda: list(t.partition(f, axis=axis, ignore_none=ignore_none)))
    sig = dict(axis=axis, form=form)
    if e is not None:
        fail('partition-dict:raised', repr(e)[:150], **sig)
        return
    exp = groups_of(a, axis, lambda i, m: lab.get(i), ignore_none)
    if [p for p, _ in parts] != list(exp):
        fail('partition-dict:labels', f"{[p for p, _ in parts]} vs {list(exp)}", **sig)
        return
    for g, tab in parts:
        same_table('partition-dict:part', observe(tab), a.select(axis, exp[g]), type_=True, **sig)


def h_collapse(nr, nc, axis, lname, zeros=1):
    t, a = make_table(nr, nc, md='both', zeros=zeros, type_='OTU table')
    norm = flag('norm')
    mgs = 1 + choice(2, 'min_group_size')
    incl = flag('include_collapsed_metadata')
    labeler = LABELERS[lname]
    sig = dict(axis=axis, labeler=lname, norm=int(norm), min_group_size=mgs)
    res, e = call(lambda: t.collapse(labeler, norm=norm, min_group_size=mgs, include_collapsed_metadata=incl, axis=axis))
    groups = {g: ks for g, ks in groups_of(a, axis, labeler, False).items() if len(ks) >= mgs}
    if not groups:
        return                      # nothing survives the threshold: outside the claim
    if e is not None:
        fail('collapse:raised', repr(e)[:150], **sig)
        return
    inv = 'observation' if axis == 'sample' else 'sample'
    n_inv = len(a.ids(inv))
    vecs, md = [], []
    for g, ks in groups.items():
        v = [ssum(a.vec(axis, k)[q] for k in ks) for q in range(n_inv)]
        if norm:
            v = [x / len(ks) for x in v]
        vecs.append(v)
        md.append({'collapsed_ids': [a.ids(axis)[k] for k in ks]} if incl else {})
    labels = [g if isinstance(g, str) else g for g in groups]
    if not all(isinstance(g, str) for g in labels):
        labels = [str(g) if not isinstance(g, tuple) else g for g in labels]
    if axis == 'sample':
        exp = ATM(a.obs_ids, [str(g) for g in labels], [[vecs[c][r] for c in range(len(vecs))] for r in range(n_inv)],
                  a.obs_md, md, 'OTU table')
    else:
        exp = ATM([str(g) for g in labels], a.samp_ids, vecs, md, a.samp_md, 'OTU table')
    got = observe(res)
    same_table('collapse', got, exp, type_=True, **sig)
    coherent('collapse:coherent', res, **sig)
    if not norm and mgs == 1:
        tot_inv = [ssum(a.vec(inv, q)) for q in range(n_inv)]
        s = res.sum(axis=inv)
        prove('collapse:conserves-other-axis-totals', and_(*[eq(s[q], tot_inv[q]) for q in range(n_inv)]), **sig)
    same_table('collapse:input-unchanged', observe(t), a, type_=True, **sig)


PATHWAYS = [[], ['g1'], ['g1', 'g2'], ['g1', 'g1'], ['g2', 'g1', 'g3']]


def h_one_to_many(nr, nc, axis, mode, zeros=1):
    t, a = make_table(nr, nc, md='both', zeros=zeros, type_='OTU table', unsorted=(zeros > 0))
    ids = a.ids(axis)
    assign = {i: PATHWAYS[choice(len(PATHWAYS), f'paths-{k}')] for k, i in enumerate(ids)}
    if not any(assign.values()):
        raise Abort()

    def f(id_, md):
        for g in assign[str(id_)]:
            yield ('path-of-' + g, g)
    sig = dict(axis=axis, mode=mode)
    res, e = call(lambda: t.collapse(f, norm=False, one_to_many=True, one_to_many_mode=mode, axis=axis))
    if e is not None:
        fail('one-to-many:raised', repr(e)[:150], **sig)
        return
    groups = sorted({g for v in assign.values() for g in v})
    inv = 'observation' if axis == 'sample' else 'sample'
    n_inv = len(a.ids(inv))
    vecs = []
    for g in groups:
        v = [0.0] * n_inv
        for k, i in enumerate(ids):
            mult = assign[i].count(g)
            if mult:
                kv = len(assign[i])
                for q in range(n_inv):
                    x = a.vec(axis, k)[q] * mult
                    v[q] = v[q] + (x / kv if mode == 'divide' else x)
        vecs.append(v)
    md = [{'Path': 'path-of-' + g} for g in groups]
    if axis == 'sample':
        exp = ATM(a.obs_ids, groups, [[vecs[c][r] for c in range(len(groups))] for r in range(n_inv)], a.obs_md, md, 'OTU table')
    else:
        exp = ATM(groups, a.samp_ids, vecs, md, a.samp_md, 'OTU table')
    same_table('one-to-many', observe(res), exp, type_=True, **sig)
    coherent('one-to-many:coherent', res, **sig)
    if mode == 'divide':
        mapped = [k for k, i in enumerate(ids) if assign[i]]
        want = ssum(x for k in mapped for x in a.vec(axis, k))
        prove('one-to-many:divide-conserves-total', eq(res.sum('whole'), want), **sig)
    same_table('one-to-many:input-unchanged', observe(t), a, type_=True, **sig)


HARNESSES = {'partition': h_partition, 'partition_dict': h_partition_dict, 'collapse': h_collapse, 'one_to_many': h_one_to_many}


def jobs(tier):
    out = []
    shapes = [(2, 3), (3, 2)] if tier == 'quick' else [(2, 3), (3, 2), (3, 3)]
    for nr, nc in shapes:
        for ax in AX:
            n = nr if ax == 'observation' else nc
            if tier == 'quick' and n < 3:
                continue
            z = 0 if tier == 'quick' else 1
            for ln in LABELERS:
                out.append(('partition', (nr, nc, ax, ln, False, z)))
                out.append(('partition', (nr, nc, ax, ln, True, 0)))
                if ln not in ('zero-or-one', 'none-for-some', 'list-valued'):
                    out.append(('collapse', (nr, nc, ax, ln, z)))
            # per-id metadata whose values are all falsy still travels with its id
            out.append(('partition', (nr, nc, ax, 'injective', False, 0, 'falsy')))
            out.append(('partition', (nr, nc, ax, 'id-parity', True, 0, 'falsy')))
            out.append(('partition_dict', (nr, nc, ax)))
            for mode in ('add', 'divide'):
                out.append(('one_to_many', (nr, nc, ax, mode, z)))
    return out



# heavy shards are split into disjoint parts of their path tree (run in parallel; together exactly the unsplit exploration)
def slices(job, tier):
    h, a = job
    return 3 if h in ('one_to_many', 'collapse') else 1

OPTS = {'quick': {'time_budget': 60}, 'thorough': {'time_budget': 900}}

META = {
    'explanation': "C11: Table.partition (function and both dict forms, remove_empty/ignore_none) and Table.collapse (one-to-one with norm / "
                   "min_group_size / collapsed_ids metadata; one-to-many add/divide with pathway generators yielding 0..3 groups incl. duplicates) "
                   "from every representation state; parts compared with the exact membership split, collapsed vectors with element-wise sums of the "
                   "members (divided by the member count / number of yielded groups), totals conserved.",
    'encoded': {'biom/table.py': ['partition', 'collapse', '_conv_to_self_type', '_to_sparse', 'list_sparse_to_sparse', 'nparray_to_sparse',
                                  'iter', 'iter_data', '_iter_samp', '_iter_obs', 'sum', '__init__']},
    'bounds': {'quick': {'shapes': '2x3 (sample axis), 3x2 (observation axis): 3 ids on the partitioned axis', 'labelers': '7', 'pathway menus': '5 per vector'},
               'thorough': {'shapes': '2x3, 3x2, 3x3 both axes'}},
    'outside': ['custom collapse_f', 'strict / incomplete pathways', 'non-string collapse labels', 'IEEE rounding of sums and quotients',
                'larger tables'],
    'assumptions': ['scipy.sparse model incl. dok accumulation', 'labels are hashable or lists (tuple-ised as the library does)'],
}
