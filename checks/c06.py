"""C06 Reordering, transposing, copying and renaming keep every value with its IDs."""
import itertools
import re
from sx.harness import *      # noqa

PROP = 'C06'
AX = ('sample', 'observation')


def _ref_natsort(ids):
    """independent natural order: numbers (digit runs, optionally with a decimal fraction) compare numerically, the rest as text"""
    def key(s):
        out = []
        for tok in re.findall(r'\d+\.\d+|\d+|\D+', s):
            if tok[0].isdigit():
                out.append((0, float(tok) if '.' in tok else int(tok)))
            else:
                out.append((1, tok))
        return out, s
    return sorted(ids, key=key)


# ids whose natural order differs from text order in every way the key function distinguishes: integer vs decimal chunks,
# different integer widths, leading/trailing text, bare numbers (no numeric ties: those are resolved by input order)
DECIMAL_IDS = ['run9007199254740993_a', 'run9007199254740992_b',      # integers that differ below double precision
               'd2', 'd9.5', 'd10', 'd10.5', 'd1.10', 'd1.9', '3', '2.5x', 'x', 'd', '10', '9.75']


def _state(nr, nc, zeros=0, light=False):
    md = pick(['none', 'both'], 'md')
    if light:       # the operation does not look at the matrix representation: canonical layouts only
        return make_table(nr, nc, md=md, zeros=zeros, type_='OTU table', unsorted=False, layouts=('csr',))
    return make_table(nr, nc, md=md, zeros=zeros, type_='OTU table')


def h_sort_order(nr, nc, axis):
    import numpy as np
    t, a = _state(nr, nc)
    n = nr if axis == 'observation' else nc
    perms = list(itertools.permutations(range(n)))
    perm = list(perms[choice(len(perms), 'perm')])
    order = [a.ids(axis)[k] for k in perm]
    as_array = flag('order-as-array')
    t2 = t.sort_order(np.array(order) if as_array else list(order), axis=axis)
    same_table('sort_order', observe(t2), a.select(axis, perm), type_=True, axis=axis)
    coherent('sort_order:coherent', t2)
    if [str(x) for x in t2.ids(axis=axis)] != order:
        fail('sort_order:order', f"{list(t2.ids(axis=axis))} != {order}")
    # permutation followed by its inverse restores everything
    t3 = t2.sort_order(list(a.ids(axis)), axis=axis)
    same_table('sort_order:inverse', observe(t3), a, type_=True, axis=axis)
    # the value for every (obs id, sample id) pair, asked through the public per-cell accessor
    o, s = a.obs_ids[0], a.samp_ids[-1]
    prove('sort_order:cell', eq(t2.get_value_by_ids(o, s), a.dense[0][-1]))


def h_sort(nr, nc, axis, decimal_ids=False):
    if decimal_ids:
        n = nr if axis == 'observation' else nc
        chosen, pool = [], list(DECIMAL_IDS)
        for k in range(n):
            chosen.append(pool.pop(choice(len(pool), f'id{k}')))
        kw = {'obs_ids': chosen} if axis == 'observation' else {'samp_ids': chosen}
        t, a = make_table(nr, nc, md=pick(['none', 'both'], 'md'), type_='OTU table', unsorted=False, layouts=('csr',), **kw)
    else:
        t, a = _state(nr, nc)
    kind = pick(['natsort', 'reverse'], 'sort_f')
    ids = a.ids(axis)
    if kind == 'natsort':
        t2 = t.sort(axis=axis)
        exp = _ref_natsort(ids)
    else:
        t2 = t.sort(sort_f=lambda x: sorted(x, reverse=True), axis=axis)
        exp = sorted(ids, reverse=True)
    perm = [ids.index(x) for x in exp]
    same_table('sort', observe(t2), a.select(axis, perm), type_=True, axis=axis, sort_f=kind)
    coherent('sort:coherent', t2)


def h_transpose(nr, nc):
    t, a = _state(nr, nc, zeros=1)
    t2 = t.transpose()
    same_table('transpose', observe(t2), a.transpose())
    coherent('transpose:coherent', t2)
    t3 = t2.transpose()
    same_table('transpose:twice', observe(t3), a)
    same_table('transpose:input', observe(t), a, type_=True)


def h_copy(nr, nc):
    t, a = _state(nr, nc, zeros=1)
    t2 = t.copy()
    same_table('copy', observe(t2), a, type_=True)
    coherent('copy:coherent', t2)


RENAMES = {
    'same-length': lambda ids: {x: 'R%d' % k + x[2:] if len(x) > 2 else ('Q%d' % k)[:len(x)] for k, x in enumerate(ids)},
    'lengthen': lambda ids: {x: x + '-renamed-much-longer-%d' % k for k, x in enumerate(ids)},
    'shorten': lambda ids: {x: 'n%d' % k for k, x in enumerate(ids)},
    'swap': lambda ids: dict(zip(ids, ids[1:] + ids[:1])),
}


def h_update_ids(nr, nc, axis):
    t, a = _state(nr, nc, light=True)
    ids = a.ids(axis)
    kind = pick(sorted(RENAMES), 'rename')
    full = RENAMES[kind](ids)
    strict = flag('strict')
    inplace = flag('inplace')
    if strict:
        id_map = full
    else:
        # partial renaming: every non-empty proper subset of the ids is renamed
        subsets = [s for r in range(1, len(ids)) for s in itertools.combinations(ids, r)] or [tuple(ids)]
        sub = subsets[choice(len(subsets), 'subset')]
        id_map = {k: full[k] for k in sub}
    new_ids = [id_map.get(x, x) for x in ids]
    if len(set(new_ids)) != len(new_ids):
        raise Abort()                       # not an injective renaming of the axis: outside C06
    res = t.update_ids(dict(id_map), axis=axis, strict=strict, inplace=inplace)
    exp = a.copy()
    if axis == 'observation':
        exp.obs_ids = new_ids
    else:
        exp.samp_ids = new_ids
    same_table('update_ids', observe(res), exp, type_=True, axis=axis, kind=kind)
    coherent('update_ids:coherent', res)
    if inplace and res is not t:
        fail('update_ids:returns-self')
    for old, new in zip(ids, new_ids):
        if not res.exists(new, axis=axis):
            fail('update_ids:lookup', f"{new!r} not found after renaming")
        elif res.index(new, axis=axis) != ids.index(old):
            fail('update_ids:lookup', f"{new!r} at {res.index(new, axis=axis)}")
        if old not in new_ids and res.exists(old, axis=axis):
            fail('update_ids:stale', f"old id {old!r} still known")
    if not inplace:
        same_table('update_ids:input', observe(t), a, type_=True)


def h_align_to(nr, nc, mode):
    t, a = _state(nr, nc, light=(nr * nc > 6))
    b = B()
    pr = list(itertools.permutations(range(nr)))
    pc = list(itertools.permutations(range(nc)))
    p_o = list(pr[choice(len(pr), 'perm-obs')])
    p_s = list(pc[choice(len(pc), 'perm-samp')])
    o_ids = [a.obs_ids[k] for k in p_o]
    s_ids = [a.samp_ids[k] for k in p_s]
    import numpy as np
    other = b.Table(np.ones((nr, nc)), o_ids, s_ids)
    res = t.align_to(other, axis=mode)
    exp = a
    if mode in ('observation', 'both', 'detect'):
        exp = exp.select('observation', p_o)
    if mode in ('sample', 'both', 'detect'):
        exp = exp.select('sample', p_s)
    same_table('align_to', observe(res), exp, type_=True, mode=mode)
    coherent('align_to:coherent', res)


HARNESSES = {'sort_order': h_sort_order, 'sort': h_sort, 'transpose': h_transpose, 'copy': h_copy,
             'update_ids': h_update_ids, 'align_to': h_align_to}


def jobs(tier):
    shapes = [(2, 3), (3, 2)] if tier == 'quick' else [(2, 3), (3, 2), (3, 3), (2, 4), (4, 2)]
    out = []
    for nr, nc in shapes:
        for ax in AX:
            out.append(('sort_order', (nr, nc, ax)))
            out.append(('sort', (nr, nc, ax)))
            out.append(('update_ids', (nr, nc, ax)))
        out.append(('transpose', (nr, nc)))
        out.append(('copy', (nr, nc)))
    for ax in AX:
        out.append(('sort', (3, 3, ax, True)))
    for nr, nc in ([(2, 3)] if tier == 'quick' else [(2, 3), (3, 2), (3, 3)]):
        for mode in ('sample', 'observation', 'both', 'detect'):
            out.append(('align_to', (nr, nc, mode)))
    return out



# heavy shards are split into disjoint parts of their path tree (run in parallel; together exactly the unsplit exploration)
def slices(job, tier):
    h, a = job
    return 4 if h == 'sort' and len(a) > 3 and a[3] else 1

OPTS = {'quick': {'time_budget': 70}, 'thorough': {'time_budget': 1500}}

META = {
    'explanation': "C06: sort_order / sort / align_to / transpose / copy / update_ids executed on every representation of a small "
                   "table (all sparsity patterns, all stored-index orders, CSR and CSC layouts) for every permutation / renaming; "
                   "result compared term-by-term with the permuted abstract table; natural sort on every ordered 3-subset of a 12-id menu mixing integer widths, decimals, bare numbers and trailing text.",
    'encoded': {'biom/table.py': ['sort_order', 'sort', 'align_to', 'transpose', 'copy', 'update_ids', '_index_ids',
                                  '__init__', '_cast_metadata', 'get_value_by_ids', '__getitem__', 'index', 'exists'],
                'biom/util.py': ['natsort', '_natsort_key', 'index_list'], 'biom/err.py': ['errcheck', 'test']},
    'bounds': {'quick': {'shapes': '2x3, 3x2', 'values': 'unbounded reals, stored entries non-zero', 'permutations': 'all',
                         'renamings': '4 families x strict/partial(all proper subsets) x inplace'},
               'thorough': {'shapes': '2x3, 3x2, 3x3, 2x4, 4x2', 'permutations': 'all (axis length <= 4)'}},
    'outside': ['ID text beyond the menu', 'tables larger than the stated shapes', 'non-injective renamings',
                'IEEE rounding (values are exact reals)'],
    'assumptions': ['scipy.sparse model (validated differentially each run)', 'numpy fancy indexing on ID/metadata arrays is real numpy'],
}
