"""C10 Concatenation places every operand's block unchanged and pads with zeros."""
import itertools
from sx.harness import *      # noqa
from sx.harness import _arr
from checks.c09 import compare_unordered

PROP = 'C10'

# other-axis id lists of an extra operand relative to the first operand's other-axis ids
def inv_patterns(ids):
    return {'identical': list(ids), 'permuted': list(ids)[::-1], 'rotated': list(ids)[1:] + list(ids)[:1], 'missing-first': list(ids)[1:] or list(ids),
            'missing-last+new': list(ids)[:-1] + ['b2'], 'disjoint': ['b10x', 'b2'], 'zero-length': []}


def operand(axis, axis_ids, inv_ids, prefix, md, sparse=False):
    """a table whose ids on `axis` are axis_ids, other axis inv_ids"""
    b = B()
    oids, sids = (inv_ids, axis_ids) if axis == 'sample' else (axis_ids, inv_ids)
    nr, nc = len(oids), len(sids)
    if sparse:
        cells, dense = sym_matrix(nr, nc, prefix)
        data, indices, indptr, _ = build_csr(cells)
    else:
        dense = [[var(f"{prefix}_{i}_{j}", nonzero=True) for j in range(nc)] for i in range(nr)]
        data = [dense[i][j] for i in range(nr) for j in range(nc)]
        indices = [j for i in range(nr) for j in range(nc)]
        indptr = [i * nc for i in range(nr + 1)]
    m = b.csr((_arr(data), indices, indptr), shape=(nr, nc))
    omd = [{'taxonomy': ['k', prefix + o]} for o in oids] if md and oids else None
    smd = [{'env': prefix + s} for s in sids] if md and sids else None
    t = b.Table(m, list(oids), list(sids), omd, smd, type='OTU table')
    return t, ATM(oids, sids, dense, omd, smd, 'OTU table')


def expected(axis, atms):
    inv = 'observation' if axis == 'sample' else 'sample'
    axis_ids, inv_ids = [], []
    for a in atms:
        axis_ids += a.ids(axis)
        inv_ids += [i for i in a.ids(inv) if i not in inv_ids]
    md = []
    rows = []
    for a in atms:
        for k, i in enumerate(a.ids(axis)):
            md.append({} if a.md(axis) is None else a.md(axis)[k])
            vec = a.vec(axis, k)
            rows.append([vec[a.ids(inv).index(j)] if j in a.ids(inv) else 0.0 for j in inv_ids])
    if all(not m for m in md):
        md = None
    if axis == 'sample':
        dense = [[rows[c][r] for c in range(len(axis_ids))] for r in range(len(inv_ids))]
        return ATM(inv_ids, axis_ids, dense, None, md, None)
    return ATM(axis_ids, inv_ids, rows, md, None, None)


def h_concat(axis, k, md_cfg, via, shape=(2, 2), sparse_others=False):
    b = B()
    inv = 'observation' if axis == 'sample' else 'sample'
    # first operand: arbitrary representation state 2x2
    t0, a0 = make_table(shape[0], shape[1], md='both' if md_cfg[0] else 'none', zeros=1 if shape == (2, 2) else 0, type_='OTU table')
    ops, atms = [t0], [a0]
    pats = inv_patterns(a0.ids(inv))
    names = [['c1', 'c2'], ['d-1']]
    for q in range(k - 1):
        pk = pick(sorted(pats), f'inv-pattern{q}')
        # an operand may also have no id at all on the concatenated axis: it still contributes its other-axis ids
        axis_ids = [] if (k == 2 and pk != 'zero-length' and flag('operand-without-axis-ids')) else names[q]
        t, a = operand(axis, axis_ids, pats[pk], 'wx'[q], md_cfg[q + 1] if q + 1 < len(md_cfg) else False, sparse=sparse_others)
        ops.append(t)
        atms.append(a)
    sig = dict(axis=axis, k=k, via=via)
    if via == 'method':
        arg = ops[1] if (k == 2 and flag('single-not-list')) else ops[1:]
        res, e = call(lambda: ops[0].concat(arg, axis=axis))
        if isinstance(arg, list) and (len(arg) != k - 1 or any(x is not y for x, y in zip(arg, ops[1:]))):
            fail('concat:argument-list-modified', f"{len(arg)} entries after the call, {k - 1} before", **sig)
            return
    else:
        import sx.env as env
        biom = env.module('biom')
        arg = list(ops)
        res, e = call(lambda: biom.concat(arg, axis) if flag('axis-positional') else biom.concat(arg, axis=axis))
        if len(arg) != k:
            fail('concat:argument-list-modified', 'wrapper', **sig)
    if e is not None:
        fail('concat:raised', f"{type(e).__name__}: {e}"[:200], **sig)
        return
    exp = expected(axis, atms)
    got = observe(res)
    if axis == 'sample':
        got.obs_md = None
    else:
        got.samp_md = None
    if got.ids(axis) != exp.ids(axis):
        fail('concat:axis-order', f"{got.ids(axis)} vs {exp.ids(axis)}", **sig)
        return
    coherent('concat:coherent', res, **sig)
    compare_unordered('concat', got, exp, **sig)
    prove('concat:grand-total', eq(res.sum('whole'), ssum(a.total() for a in atms)), **sig)
    for q, (t, a) in enumerate(zip(ops, atms)):
        same_table('concat:operand-unchanged', observe(t), a, **sig)
    if res.type != 'OTU table':
        fail('concat:type', str(res.type), **sig)


def h_not_disjoint(axis):
    """operands sharing an id on the concatenated axis must be refused"""
    inv = 'observation' if axis == 'sample' else 'sample'
    t0, a0 = make_table(2, 2, md='none', zeros=0, unsorted=False, layouts=('csr',))
    shared = a0.ids(axis)[choice(2, 'shared-id')]
    pos = choice(2, 'pos')
    ids = ['c1']
    ids.insert(pos, shared)
    t1, a1 = operand(axis, ids, list(a0.ids(inv)), 'w', False)
    three = flag('third-operand')
    others = [t1]
    if three:
        t2, a2 = operand(axis, ['e9'], list(a0.ids(inv)), 'x', False)
        others = [t2, t1] if flag('order') else [t1, t2]
    e = raises(lambda: t0.concat(others, axis=axis))
    X = B().X
    if e is None:
        fail('concat:not-refused', f"ids {a0.ids(axis)} + {ids}", axis=axis)
    elif not isinstance(e, X.DisjointIDError):
        fail('concat:wrong-error', repr(e)[:100], axis=axis)
    # the very same table object twice (its ids cannot be disjoint from themselves), through both entry points
    import sx.env as env
    for label, fn in (('method', lambda: t0.concat([t0], axis=axis)), ('wrapper', lambda: env.module('biom').concat([t0, t0], axis=axis)),
                      ('wrapper-later', lambda: env.module('biom').concat([t0, t3x, t0], axis=axis))):
        if label == 'wrapper-later':
            t3x, _ = operand(axis, ['p9', 'q9'], list(a0.ids(inv)), 'u', False)
        e = raises(fn)
        if e is None or not isinstance(e, X.DisjointIDError):
            fail('concat:same-object-twice-not-refused', f"{label}: {e!r}"[:120], axis=axis)
    # between later operands only
    t3, a3 = operand(axis, ['p', 'q'], list(a0.ids(inv)), 'y', False)
    t4, a4 = operand(axis, ['q'], list(a0.ids(inv)), 'z', False)
    e = raises(lambda: t0.concat([t3, t4], axis=axis))
    if e is None or not isinstance(e, X.DisjointIDError):
        fail('concat:not-refused-later-pair', repr(e)[:100], axis=axis)


HARNESSES = {'concat': h_concat, 'not_disjoint': h_not_disjoint}


def jobs(tier):
    out = []
    for axis in ('sample', 'observation'):
        for via in ('method', 'wrapper'):
            for md_cfg in ((False, False, False), (True, True, True), (True, False, False), (False, True, False)):
                out.append(('concat', (axis, 2, md_cfg, via)))
                out.append(('concat', (axis, 1, md_cfg, via)))       # k = 1: nothing to append
                if tier != 'quick' or (via == 'method' and md_cfg in ((False, False, False), (True, False, True))):
                    out.append(('concat', (axis, 3, md_cfg, via)))
        out.append(('not_disjoint', (axis,)))
        # three ids on the other axis: orders that are not their own inverse (rotations)
        out.append(('concat', (axis, 2, (False, False, False), 'method', (3, 2) if axis == 'sample' else (2, 3))))
        if tier != 'quick':
            for shape in ((2, 3), (3, 2)):
                for md_cfg in ((False, False, False), (True, True, True), (False, True, False)):
                    if md_cfg == (False, False, False) and shape == ((3, 2) if axis == 'sample' else (2, 3)):
                        continue        # registered above for both tiers
                    out.append(('concat', (axis, 2, md_cfg, 'method', shape)))
            for md_cfg in ((False, False, False), (True, False, True)):
                out.append(('concat', (axis, 2, md_cfg, 'method', (2, 2), True)))
                out.append(('concat', (axis, 3, md_cfg, 'wrapper', (2, 2), True)))
    return out


OPTS = {'quick': {'time_budget': 60}, 'thorough': {'time_budget': 900}}

META = {
    'explanation': "C10: Table.concat / biom.concat with 2-3 operands on both axes; the first operand in every representation state, the "
                   "others over other-axis overlap patterns (identical, permuted, partially missing, missing+new, disjoint, zero-length; an operand without any id on the concatenated axis), with/without metadata; "
                   "result compared term-by-term with block placement + zero padding; totals; non-disjoint operand sets must raise DisjointIDError.",
    'encoded': {'biom/table.py': ['concat', 'sort_order', '__init__', 'metadata', 'ids', '_invert_axis'], 'biom/__init__.py': ['concat']},
    'bounds': {'quick': {'operands': 'k=1, k=2 (all configs), k=3 (2 configs); 2x2 first operand in all representations (3x2 / 2x3 for rotated other-axis orders), others 2x2 / 1x2 dense, also with a zero-length axis'},
               'thorough': {'operands': 'k=2,3 all configs'}},
    'outside': ['other-axis order and other-axis metadata (not constrained by the property)', 'k>3', 'larger operands'],
    'assumptions': ['scipy.sparse model incl. vstack/hstack fast paths (validated each run)'],
}
