"""CrossHair engine: run the contract functions of harness/ch_<prop>.py, one CrossHair process per shard.

The condition functions in harness/ch_*.py state their argument domains as `require:` lines (NOT CrossHair contracts: a
callee with a contract would be summarised by its postcondition instead of being executed); the generated wrappers turn them
into `pre:` lines and carry the `post: __return__` contract.
A shard fixes some leading selector arguments of a condition function to constants (generated wrapper) so that every
condition can reach `Confirmed over all paths` inside its time-out.  Verdicts:
  Confirmed over all paths  -> holds for all argument values of that shard
  counterexample            -> replayed concretely on the real code (plain call of the condition function) before it is reported
  Not confirmed / Unable to meet precondition / time-out -> inconclusive (counted, never success)
"""
import importlib
import json
import os
import re
import subprocess
import sys
import time
from concurrent.futures import ThreadPoolExecutor

ROOT = os.path.dirname(os.path.dirname(os.path.abspath(__file__)))
REPO = os.environ.get('VERIF_REPO', '/repo')
PY = os.path.join(ROOT, '.venv', 'bin', 'python')
OUT = os.environ.get('VERIF_OUT', ROOT)


def _gen_module(prop, shards):
    """harness/_gen_ch_<prop>.py with one wrapper per shard"""
    base = f"harness.ch_{prop.lower()}"
    mod = importlib.import_module(base)
    lines = [f'"""generated: CrossHair shards of {base} (do not edit)"""', f"from {base} import *    # noqa", f"import {base} as _b", '']
    names = []
    import inspect
    for n, (fn, fixed) in enumerate(shards):
        f = getattr(mod, fn)
        sig = inspect.signature(f)
        doc = inspect.getdoc(f) or ''
        free = [p for p in sig.parameters if p not in fixed]
        pre = []
        for l in doc.splitlines():
            l = l.strip()
            if l.startswith('require:'):
                cond = l[8:].strip()
                for k, v in fixed.items():
                    cond = re.sub(rf'\b{k}\b', repr(v), cond)
                pre.append('    pre: ' + cond)
        name = f"{fn}__{n}"
        names.append((name, fn, fixed))
        args = ', '.join(f"{p}: {getattr(sig.parameters[p].annotation, '__name__', 'int')}" for p in free)
        call = ', '.join(f"{p}={fixed[p]!r}" if p in fixed else f"{p}={p}" for p in sig.parameters)
        lines += [f"def {name}({args}) -> bool:", '    """'] + pre + ['    post: __return__', '    """', f"    return _b.{fn}({call})", '', '']
    path = os.path.join(ROOT, 'harness', f'_gen_ch_{prop.lower()}.py')
    with open(path, 'w') as fh:
        fh.write('\n'.join(lines))
    return f"harness._gen_ch_{prop.lower()}", names


def _one(args):
    modname, name, fn, fixed, timeout = args
    env = dict(os.environ, PYTHONPATH=ROOT, VERIF_REPO=REPO, PYTHONHASHSEED='0')
    t0 = time.time()
    try:
        p = subprocess.run([PY, '-m', 'crosshair', 'check', '--report_all', '--per_condition_timeout', str(timeout),
                            f"{modname}.{name}"], capture_output=True, text=True, timeout=timeout * 2 + 30, env=env, cwd=ROOT)
        out = p.stdout + p.stderr
    except subprocess.TimeoutExpired:
        out = 'TIMEOUT'
    dt = time.time() - t0
    verdict, cex = 'inconclusive', None
    if 'Confirmed over all paths' in out:
        verdict = 'confirmed'
    m = re.search(r'error: (.*?) when calling (\w+)\((.*?)\)(?: \(which|$)', out, re.S)
    if m:
        verdict, cex = 'counterexample', (m.group(1), m.group(3))
    elif 'error:' in out:
        verdict = 'inconclusive'        # a CrossHair-internal error (NotDeterministic, ...), not a counterexample
    return {'shard': name, 'function': fn, 'fixed': fixed, 'verdict': verdict, 'cex': cex, 'wall_s': round(dt, 2),
            'raw': out[-400:] if verdict != 'confirmed' else ''}


def _xval(args):
    """concrete cross-validation of a `Confirmed over all paths` verdict on plain CPython, when the residual argument space is small:
    CrossHair's verdict is only as good as its models of the builtins (observed: its insertion-ordered `set` hid a dependence on hash order)"""
    modname, name = args
    env = dict(os.environ, PYTHONPATH=ROOT, VERIF_REPO=REPO, PYTHONHASHSEED='0')
    try:
        p = subprocess.run([PY, '-m', 'checks.ch_xval', modname, name], capture_output=True, text=True, timeout=600, env=env, cwd=ROOT)
        line = (p.stdout.strip().splitlines() or ['{}'])[-1]
        return name, json.loads(line)
    except Exception as e:      # noqa
        return name, {'skipped': f'error {e}'}


def run(prop, tier, timeout=None, workers=16):
    base = importlib.import_module(f"harness.ch_{prop.lower()}")
    shards = base.shards(tier)
    witness = getattr(base, 'WITNESS', None)
    if witness:
        shards = [(witness, {})] + list(shards)
    modname, names = _gen_module(prop, shards)
    timeout = timeout or (40 if tier == 'quick' else 240)
    t0 = time.time()
    with ThreadPoolExecutor(max_workers=workers) as tp:
        res = list(tp.map(_one, [(modname, n, fn, fixed, timeout) for n, fn, fixed in names]))
    # cross-validate confirmed shards concretely where the residual space is small
    xval = {}
    conf = [r for r in res if r['verdict'] in ('confirmed', 'inconclusive') and r['function'] != witness]
    with ThreadPoolExecutor(max_workers=workers) as tp:
        for name, out in tp.map(_xval, [(modname, r['shard']) for r in conf]):
            xval[name] = out
    for r in res:
        out = xval.get(r['shard'])
        if out and out.get('false_at'):
            was = r['verdict']
            r['verdict'] = 'counterexample'
            r['cex'] = ("condition false on plain CPython although CrossHair reported `Confirmed` (model discrepancy)"
                        if was == 'confirmed' else "condition false on plain CPython (CrossHair itself was inconclusive on this shard)",
                        ', '.join(str(v) for v in out['false_at'][0]))
    findings = []
    witness_ok = None
    if witness:
        w = res[0]
        if w['verdict'] == 'inconclusive':
            # a time-out on a loaded machine says nothing about reachability: ask again, alone and with a longer budget
            w = _one((modname, names[0][0], names[0][1], names[0][2], timeout * 4))
        witness_ok = w['verdict'] == 'counterexample'
        res = res[1:]
        if w['verdict'] == 'inconclusive':
            # still undecided: nothing is claimed from CrossHair in this run (every shard counts as inconclusive)
            witness_ok = None
            for r in res:
                if r['verdict'] == 'confirmed':
                    r['verdict'], r['raw'] = 'inconclusive', 'reachability witness undecided (time-out): verdict not used'
        elif not witness_ok:
            raise RuntimeError(f"CrossHair reachability witness {witness} was not refuted ({w['verdict']}): the conditions would pass vacuously\n{w['raw']}")
    for r in res:
        if r['verdict'] != 'counterexample':
            continue
        argtxt = r['cex'][1]
        label = r['function']
        d = os.path.join(OUT, 'replays', prop)
        os.makedirs(d, exist_ok=True)
        path = os.path.join(d, f"crosshair-{r['shard']}.py")
        with open(path, 'w') as fh:
            fh.write("#!/usr/bin/env python3\n"
                     f'"""Replay of a CrossHair counterexample for {prop}: {modname}.{r["shard"]}({argtxt})\n'
                     'exit 1 = the condition is false on the real code (reproduced), 0 = it holds."""\n'
                     "import sys\n"
                     f"sys.path.insert(0, {ROOT!r})\n"
                     f"import {modname} as m\n"
                     "try:\n"
                     f"    ok = m.{r['shard']}({argtxt or ''})\n"
                     "except Exception as e:\n"
                     "    print('replay raised', repr(e)); sys.exit(3)\n"
                     f"print('condition {r['shard']}({argtxt}) ->', ok)\n"
                     "sys.exit(0 if ok else 1)\n")
        sig_extra = ''
        if hasattr(base, 'signature'):
            try:
                sig_extra = base.signature(r['function'], r['fixed'], argtxt)
            except Exception:   # noqa
                sig_extra = ''
        findings.append({'signature': f"crosshair:{label}{sig_extra}", 'replay_path': path, 'label': label,
                         'detail': f"{r['shard']}({argtxt}): {r['cex'][0]}"[:300], 'values': {}, 'sig': {}})
    confirmed = sum(1 for r in res if r['verdict'] == 'confirmed')
    incon = [r for r in res if r['verdict'] == 'inconclusive']
    return [{
        'engine': 'crosshair 0.0.110', 'module': f"harness/ch_{prop.lower()}.py", 'conditions': len(res),
        'confirmed_over_all_paths': confirmed, 'counterexamples': len(findings), 'inconclusive': len(incon),
        'inconclusive_shards': [(r['shard'], r['fixed'], r['raw'][-120:]) for r in incon[:10]],
        'per_condition_timeout_s': timeout, 'reachability_witness_refuted': witness_ok,
        'confirmed_shards_cross_validated_concretely': sum(1 for v in xval.values() if 'evaluated' in v),
        'concrete_cross_validation_points': sum(v.get('evaluated', 0) for v in xval.values()), 'wall_s': round(time.time() - t0, 1),
        'evaluations': len(res), 'distinct_nontrivial': confirmed + len(findings),
        'queries': 0, 'solver_s': round(sum(r['wall_s'] for r in res), 1),
        'findings': findings,
        'samples': [{'crosshair_condition': r['shard'], 'fixed_selectors': r['fixed'], 'verdict': r['verdict'], 'wall_s': r['wall_s']} for r in res[:4]],
    }]
