"""C18 Metadata updates affect exactly the named IDs and keys and nothing else."""
import itertools
from sx.harness import *      # noqa
from sx import text as T
from sx import core

PROP = 'C18'
AX = ('sample', 'observation')


def _subsets(xs):
    xs = list(xs)
    return [tuple(x for k, x in enumerate(xs) if m >> k & 1) for m in range(1 << len(xs))]


def h_add(nr, nc, axis, md):
    t, a = make_table(nr, nc, md=md, zeros=0, unsorted=False, type_='OTU table')
    ids = a.ids(axis)
    subs = _subsets(ids)
    chosen = list(subs[choice(len(subs), 'ids-in-mapping')])
    unknown = flag('plus-unknown-id')
    keys_kind = pick(['new-key', 'overwrite-existing', 'both'], 'keys')
    existing = ('taxonomy' if axis == 'observation' else 'env')
    mapping = {}
    for k, i in enumerate(chosen + (['not-in-table'] if unknown else [])):
        entry = {}
        if keys_kind in ('new-key', 'both'):
            entry['added'] = 'A%d' % k
        if keys_kind in ('overwrite-existing', 'both'):
            entry[existing] = ['over', 'written%d' % k] if axis == 'observation' else 'over%d' % k
        mapping[i] = entry
    if not mapping:
        raise Abort()
    sig = dict(axis=axis, had_md=md)
    _, e = call(lambda: t.add_metadata({k: dict(v) for k, v in mapping.items()}, axis=axis))
    if e is not None:
        fail('add:raised', repr(e)[:150], **sig)
        return
    exp = a.copy()
    old = a.md(axis)
    new = []
    for k, i in enumerate(ids):
        m = dict(old[k]) if old is not None else {}
        if i in mapping:
            m.update(mapping[i])
        new.append(m)
    if all(not m for m in new):
        new = None
    if axis == 'observation':
        exp.obs_md = new
    else:
        exp.samp_md = new
    same_table('add', observe(t), exp, type_=True, **sig)
    coherent('add:coherent', t, **sig)
    # the mapping handed in is not modified
    if any(mapping[i] != {kk: vv for kk, vv in mapping[i].items()} for i in mapping):
        fail('add:argument-modified', '', **sig)


def h_del(nr, nc, axis):
    t, a = make_table(nr, nc, md='both', zeros=0, unsorted=False, type_='OTU table')
    # categories need not be uniform across ids: one id may carry a key the others lack
    jag = pick(['uniform', 'extra-key-on-last-id', 'extra-key-on-first-id'], 'key-sets')
    if jag != 'uniform':
        for ax in AX:
            k = 0 if jag == 'extra-key-on-first-id' else len(a.ids(ax)) - 1
            t.add_metadata({a.ids(ax)[k]: {'added': 'A'}}, axis=ax)
            a.md(ax)[k]['added'] = 'A'
    keys = pick([None, [], ['taxonomy'], ['n'], ['env'], ['depth', 'nonexistent'], ['taxonomy', 'n'], ['env', 'depth'],
                 ['taxonomy', 'n', 'env'], ['taxonomy', 'n', 'env', 'depth'], ['added'], ['added', 'env', 'n']], 'keys')
    sig = dict(axis=axis, keys=str(keys), key_sets=jag)
    _, e = call(lambda: t.del_metadata(keys=None if keys is None else list(keys), axis=axis))
    if e is not None:
        fail('del:raised', repr(e)[:150], **sig)
        return
    exp = a.copy()
    for ax in (AX if axis == 'whole' else (axis,)):
        old = a.md(ax)
        if keys is None:
            new = None
        else:
            new = [{k: v for k, v in m.items() if k not in keys} for m in old]
            if all(not m for m in new):
                new = None
        if ax == 'observation':
            exp.obs_md = new
        else:
            exp.samp_md = new
    same_table('del', observe(t), exp, type_=True, **sig)
    coherent('del:coherent', t, **sig)
    _, e = call(lambda: t.del_metadata(axis='bogus'))
    if e is None:
        fail('del:bad-axis-accepted', '', **sig)


# ------------------------------------------------------------------ mapping files with symbolic field text
FIELD = None
IDDOM = None


def _domains():
    global FIELD, IDDOM
    if FIELD is None:
        FIELD = T.regex_excluding('\t\n\r"#;|', nonempty=True)
        IDDOM = T.regex_excluding('\t\n\r"#;|', nonempty=True, not_starting='#')
    return FIELD, IDDOM


def h_mapping_file(nrows, ncols, variant):
    """MetadataMap.from_file on lines rendered from a structured description whose fields are symbolic text atoms"""
    import sx.env as env
    P = env.module('biom.parse')
    FIELDD, IDD = _domains()
    cols = ['colA', 'colB', 'colC'][:ncols]
    ids = [T.raw(f'id{r}', IDD, maxlen=4) for r in range(nrows)]
    if core.mode() == 'sym':
        for x, y in itertools.combinations(ids, 2):
            assume(core.SBool(x.single_hole().term != y.single_hole().term))
    else:
        if len(set(ids)) != len(ids):
            raise Abort()
    fields = [[T.raw(f'f{r}_{c}', FIELDD, maxlen=4) for c in range(ncols)] for r in range(nrows)]
    short_row = choice(nrows + 1, 'short-row') - 1 if variant in ('short-rows', 'process-fns') else -1      # -1: none
    quoted = variant == 'quoted'
    lines = []
    header_line = '#SampleID\t' + '\t'.join(cols) + '\n'
    comment_pos = choice(3, 'comment-position') if variant == 'comments' else -1
    lines.append(header_line)
    if comment_pos == 0:
        lines.append('#a comment line\twith a tab\n')
    for r in range(nrows):
        if comment_pos == 1 and r == 1 % nrows:
            lines.append('# another comment\n')
            lines.append('\n')
        row = [ids[r]] + list(fields[r])
        if r == short_row:
            row = row[:-1]              # trailing column missing: must read back as ''
        if quoted:
            row = [T.mk(['"', x, '"']) for x in row]
        parts = []
        for k, x in enumerate(row):
            if k:
                parts.append('\t')
            parts.append(x)
        parts.append('\n')
        lines.append(T.mk(parts))
    if comment_pos == 2:
        lines.append('   \n')
        lines.append('#trailing comment\n')
    kw = {}
    exp_cols = list(cols)
    tag = lambda x: ('processed', x)        # noqa
    if variant == 'header-override':
        k = 1 + choice(ncols, 'first-k-columns')
        kw['header'] = ['ID'] + ['X%d' % c for c in range(k)]
        exp_cols = ['X%d' % c for c in range(k)]
        lines = [l for l in lines if l is not header_line]
    if variant == 'process-fns':
        kw['process_fns'] = {cols[0]: tag, cols[-1]: tag, 'not-a-column': tag}       # the last column may be a padded '' (short row)
    sig = dict(variant=variant)
    r, e = call(lambda: P.MetadataMap.from_file(lines, **kw))
    if e is not None:
        fail('mapfile:raised', f"{type(e).__name__}: {e}"[:160], **sig)
        return
    if len(r) != nrows:
        fail('mapfile:row-count', f"{len(r)} ids", **sig)
        return
    claims = []
    for rr in range(nrows):
        if ids[rr] not in r:
            fail('mapfile:id-missing', repr(ids[rr]), **sig)
            return
        got = r[ids[rr]]
        if list(got.keys()) != exp_cols:
            fail('mapfile:columns', f"{list(got.keys())} vs {exp_cols}", **sig)
            return
        for c, col in enumerate(exp_cols):
            want = fields[rr][c] if not (rr == short_row and c == ncols - 1) else ''
            val = got[col]
            if variant == 'process-fns' and c in (0, ncols - 1):
                if not (isinstance(val, tuple) and val[0] == 'processed'):
                    fail('mapfile:process-fn-not-applied', repr(val), **sig)
                    return
                val = val[1]
            if isinstance(want, str) and isinstance(val, str):
                if want != val:
                    fail('mapfile:field', f"row {rr} col {col}: {val!r} vs {want!r}", **sig)
            elif isinstance(want, T.SText) and isinstance(val, T.SText):
                hw, hv = want.single_hole(), val.single_hole()
                if hw is None or hv is None:
                    fail('mapfile:field', f"row {rr} col {col}: {val!r} vs {want!r}", **sig)
                elif hw is not hv:
                    claims.append(core.SBool(hw.term == hv.term))
            else:
                fail('mapfile:field', f"row {rr} col {col}: {val!r} vs {want!r}", **sig)
    prove('mapfile:fields', and_(*claims), **sig)


def h_cli_add(axis_cfg):
    """biom add-metadata: _add_metadata with mapping 'files' given as lists of lines"""
    import sx.env as env
    M = env.module('biom.cli.metadata_adder')
    t, a = make_table(2, 2, md=pick(['none', 'both'], 'md'), zeros=0, unsorted=False, layouts=('csr',), type_='OTU table')
    s_lines = ['#SampleID\tdepth\tsite\tlist\n', f'{a.samp_ids[0]}\t7\tgut\ta; b\n', 'unknown-sample\t1\tx\ty\n',
               f'{a.samp_ids[1]}\t2.5\tsoil\tc|d; e\n']
    o_lines = ['#OTUID\ttaxonomy\tscore\n', f'{a.obs_ids[1]}\tk__A; p__B\t3\n', f'{a.obs_ids[0]}\tk__C\tnot-a-number\n']
    use_s = axis_cfg in ('sample', 'both')
    use_o = axis_cfg in ('observation', 'both')
    s_hdr = pick([None, ['id', 'D'], ['id', 'D', 'S', 'L']], 'sample-header') if use_s else None
    o_hdr = pick([None, ['id', 'TAX']], 'observation-header') if use_o else None
    sc = pick([None, ['list', 'taxonomy', 'TAX', 'L']], 'sc-separated')
    pipe = pick([None, ['list', 'L']], 'sc-pipe-separated') if sc is None else None      # values with and without a '|'
    ints = pick([None, ['depth', 'score', 'D']], 'int-fields')
    floats = pick([None, ['depth', 'D']], 'float-fields') if ints is None else None
    via = pick(['helper', 'click-callback'], 'via')
    sig = dict(axes=axis_cfg, via=via)

    def lines_for(lines, hdr):
        return [l for l in lines if not (hdr is not None and l.startswith('#'))]
    if via == 'helper':
        r, e = call(lambda: M._add_metadata(t, lines_for(s_lines, s_hdr) if use_s else None, lines_for(o_lines, o_hdr) if use_o else None,
                                            sc_separated=sc, sc_pipe_separated=pipe, int_fields=ints, float_fields=floats,
                                            sample_header=s_hdr, observation_header=o_hdr))
    else:
        # the command itself: options arrive as comma separated strings, files are opened by path (I/O stubbed)
        files = {'samples.txt': lines_for(s_lines, s_hdr), 'observations.txt': lines_for(o_lines, o_hdr)}
        written = []
        M.load_table = lambda fp: t
        M.open = lambda fp, *a_: files[fp]
        M.write_biom_table = lambda table, fmt, fp: written.append((table, fmt, fp))
        join = lambda x: None if x is None else ','.join(x)      # noqa
        as_json = flag('output-as-json')
        _, e = call(lambda: M.add_metadata.callback(
            input_fp='in.biom', output_fp='out.biom', sample_metadata_fp='samples.txt' if use_s else None,
            observation_metadata_fp='observations.txt' if use_o else None, sc_separated=join(sc), sc_pipe_separated=join(pipe),
            int_fields=join(ints), float_fields=join(floats), sample_header=join(s_hdr), observation_header=join(o_hdr),
            output_as_json=as_json))
        r = written[0][0] if written else None
        if e is None and (len(written) != 1 or written[0][1] != ('json' if as_json else 'hdf5') or written[0][2] != 'out.biom'):
            fail('cli-add:output', repr([(w[1], w[2]) for w in written]), **sig)
    if e is not None:
        fail('cli-add:raised', f"{type(e).__name__}: {e}"[:160], **sig)
        return

    def conv(col, v):
        if sc and col in sc:
            return [x.strip() for x in v.split(';')]
        if pipe and col in pipe:
            return [[x.strip() for x in y.split(';')] for y in v.split('|')]
        for fields, f in ((ints, int), (floats, float)):
            if fields and col in fields:
                try:
                    return f(v)
                except ValueError:
                    return v
        return v

    def parse(lines, hdr):
        cols = hdr[1:] if hdr else lines[0].rstrip('\n')[1:].split('\t')[1:]
        out = {}
        for l in lines[1:]:
            f = l.rstrip('\n').split('\t')
            out[f[0]] = {c: conv(c, v) for c, v in zip(cols, f[1:])}
        return out
    exp = a.copy()
    for ax, use, lines, hdr in (('sample', use_s, s_lines, s_hdr), ('observation', use_o, o_lines, o_hdr)):
        if not use:
            continue
        mp = parse(lines, hdr)
        old = a.md(ax)
        new = []
        for k, i in enumerate(a.ids(ax)):
            m = dict(old[k]) if old is not None else {}
            m.update(mp.get(i, {}))
            new.append(m)
        if ax == 'sample':
            exp.samp_md = new
        else:
            exp.obs_md = new
    same_table('cli-add', observe(r), exp, type_=True, **sig)
    _, e = call(lambda: M._add_metadata(t))
    if not isinstance(e, ValueError):
        fail('cli-add:no-mapping-accepted', '', **sig)


def h_mapping_quotes():
    """double quotes are dropped wherever they stand in a field (edges, inside, around parts of a list), blanks outside them too"""
    import sx.env as env
    P = env.module('biom.parse')
    rows = [('s1', 'say "hi"', '"k__A"; "p__B"'), ('s2', ' "ACGT" ', '"x"'), ('"s3"', 'plain', 'a"b"c')]
    lines = ['#SampleID\t"note"\ttax\n'] + ['\t'.join(r) + '\n' for r in rows]
    r, e = call(lambda: P.MetadataMap.from_file(lines))
    if e is not None:
        fail('mapfile-quotes:raised', repr(e)[:150])
        return
    want = {'s1': {'note': 'say hi', 'tax': 'k__A; p__B'}, 's2': {'note': 'ACGT', 'tax': 'x'}, 's3': {'note': 'plain', 'tax': 'abc'}}
    got = {k: dict(v) for k, v in r.items()}
    if got != want:
        fail('mapfile-quotes:relation', f"{got}"[:200])


HARNESSES = {'mapping_quotes': h_mapping_quotes, 'add': h_add, 'del': h_del, 'mapping_file': h_mapping_file, 'cli_add': h_cli_add}
VARIANTS = ['plain', 'comments', 'short-rows', 'quoted', 'header-override', 'process-fns']


def jobs(tier):
    out = []
    for nr, nc in ([(2, 3)] if tier == 'quick' else [(2, 3), (3, 2)]):
        for ax in AX:
            for md in ('none', 'both'):
                out.append(('add', (nr, nc, ax, md)))
        for ax in AX + ('whole',):
            out.append(('del', (nr, nc, ax)))
    for v in VARIANTS:
        out.append(('mapping_file', (2, 2, v)))
        if tier != 'quick':
            out.append(('mapping_file', (3, 2, v)))
            out.append(('mapping_file', (2, 3, v)))
    for cfg in ('sample', 'observation', 'both'):
        out.append(('cli_add', (cfg,)))
    out.append(('mapping_quotes', ()))
    return out


OPTS = {'quick': {'time_budget': 80, 'timeout_ms': 30000}, 'thorough': {'time_budget': 1200, 'timeout_ms': 60000}}

META = {
    'explanation': "C18: add_metadata / del_metadata over every subset of table IDs (plus an unknown ID), new and overwriting keys, both axes / whole, "
                   "with or without existing metadata, with key sets that differ between ids -- IDs, order and every matrix value proved unchanged; `add-metadata`'s _add_metadata and the click callback itself (comma separated options, files opened by path; I/O stubbed) with header "
                   "overrides and per-column conversions on both axes; MetadataMap.from_file on mapping files rendered from a structured description whose "
                   "IDs and fields are SYMBOLIC strings (z3 strings under the domain: printable, no tab/newline/quote/#/;/|, no outer blanks, IDs pairwise "
                   "distinct): every strip/split/startswith/replace the parser performs on them is decided by the solver, so the parsed relation is "
                   "proved equal to the description for all such texts (comment lines, blank lines, short rows, quoted fields, header override, process_fns).",
    'encoded': {'biom/table.py': ['add_metadata', 'del_metadata', '_cast_metadata', 'metadata', 'exists', 'index'],
                'biom/parse.py': ['from_file'], 'biom/cli/metadata_adder.py': ['add_metadata', '_add_metadata', '_split_on_semicolons', '_int', '_float']},
    'bounds': {'quick': {'tables': '2x3', 'mapping files': '2 rows x 2 columns of symbolic fields, |field| <= 4'},
               'thorough': {'tables': '2x3, 3x2', 'mapping files': '3x2, 2x3'}},
    'outside': ['field text outside the domain regex (tabs, quotes, leading #, outer blanks)', 'strings longer than 4 characters', 'suppress_stripping / strip_quotes=False',
                'reading the mapping file from a path', 'sc_pipe_separated'],
    'assumptions': ['z3 sequence theory decides the string side conditions (fresh solver per query)'],
}
