"""A tiny in-memory file system standing in for the operating system under biom.util.biom_open / is_gzip / is_hdf5_file.

What a path holds is described structurally -- ('text', handle factory), ('gzip', handle factory) or ('hdf5', store) -- and the
names biom.util resolves at call time (open, os, gzip_open, io, codecs, h5py) are rebound to this model, so the *decisions*
biom_open takes (sniffing the magic number, choosing the opener, the mode it passes on) run on the real source while no byte
ever touches a disk.  The payload a handle yields is whatever the harness supplies (symbolic text or a model HDF5 store).

Contract modelled (each line is what the standard library / h5py does for the same situation):
* open(path, 'rb').read(2): the first two bytes -- b'\\x1f\\x8b' for gzip content, b'\\x89H' for HDF5, text bytes otherwise;
* gzip.open(path, mode) on content that is not gzip: reading raises gzip.BadGzipFile (an OSError);
* io.open(path, encoding='utf-8') on gzip / HDF5 content: reading raises UnicodeDecodeError;
* h5py.is_hdf5(path): True exactly for HDF5 content; h5py.File(path, 'r') on anything else raises OSError;
* os.path.getsize(path): the content's size (0 for an empty file); a missing path raises FileNotFoundError everywhere.
"""
import contextlib


class FS:
    def __init__(self):
        self.files = {}
        self.opened = []

    def put(self, path, kind, payload, size=100):
        """kind: 'text' | 'gzip' (payload: zero-argument callable giving a fresh text handle) | 'hdf5' (payload: store)"""
        self.files[str(path)] = (kind, payload, size)

    def _get(self, path):
        p = str(path)
        if p not in self.files:
            raise FileNotFoundError(2, "No such file or directory: %r" % p)
        return self.files[p]


class _Raw:
    """binary handle: only the magic number is ever looked at"""

    def __init__(self, magic):
        self.magic = magic

    def read(self, n=-1):
        return self.magic[:n] if n is not None and n >= 0 else self.magic

    def close(self):
        pass

    def __enter__(self):
        return self

    def __exit__(self, *a):
        return False


class _Failing:
    """a handle whose every read fails the way the real opener fails on foreign content"""

    def __init__(self, exc):
        self.exc = exc

    def _boom(self, *a, **k):
        raise self.exc
    read = readline = readlines = __iter__ = tell = seek = _boom

    def close(self):
        pass


class _GzipStream:
    """what gzip.open hands back: bytes of the decompressed content (here: a marker wrapping the text handle)"""

    def __init__(self, inner):
        self.inner = inner

    def close(self):
        pass


MAGIC = {'gzip': b'\x1f\x8b\x08\x00', 'hdf5': b'\x89HDF\r\n\x1a\n', 'text': b'{"'}


def install(U, fs, h5module):
    """rebind the names biom.util (module U) resolves at call time"""
    import gzip as _gzip

    def open_(path, mode='r', *a, **k):
        kind, payload, size = fs._get(path)
        fs.opened.append((str(path), mode))
        if 'b' in mode:
            return _Raw(MAGIC[kind] if size else b'')
        if kind == 'text':
            return payload()
        return _Failing(UnicodeDecodeError('utf-8', MAGIC[kind], 0, 1, 'invalid start byte'))

    def gzip_open(path, mode='rb', *a, **k):
        kind, payload, size = fs._get(path)
        fs.opened.append((str(path), 'gzip:' + mode))
        if kind != 'gzip':
            return _GzipStream(_Failing(_gzip.BadGzipFile("Not a gzipped file (%r)" % MAGIC[kind][:2])))
        return _GzipStream(payload())

    class _Path:
        @staticmethod
        def getsize(path):
            return fs._get(path)[2]

        @staticmethod
        def exists(path):
            return str(path) in fs.files

    class _OS:
        path = _Path

    class _IO:
        IOBase = __import__('io').IOBase
        StringIO = __import__('io').StringIO

        @staticmethod
        def open(path, mode='r', *a, **k):
            return open_(path, mode)

    class _Codecs:
        @staticmethod
        def getreader(enc):
            return lambda stream: stream.inner      # utf-8 decoding of the decompressed bytes: the text handle itself

        @staticmethod
        def getwriter(enc):
            return lambda stream: stream.inner

    class _H5:
        Group = h5module.Group
        File = None

        @staticmethod
        def is_hdf5(path):
            return fs._get(path)[0] == 'hdf5'

    def h5file(path, mode='r', *a, **k):
        kind, payload, size = fs._get(path)
        fs.opened.append((str(path), 'h5py:' + mode))
        if kind != 'hdf5':
            raise OSError("Unable to synchronously open file (file signature not found)")
        return payload
    _H5.File = staticmethod(h5file)
    _H5.special_dtype = getattr(h5module, 'special_dtype', None)

    U.open = open_
    U.gzip_open = gzip_open
    U.os = _OS
    U.io = _IO
    U.codecs = _Codecs
    U.h5py = _H5
    return fs


FILE_NAMES = ['table.biom', 'table.biom.gz', 'TABLE.BIOM.GZ', 'table.gz.bak', 'table.json.gzip', 'table.txt', 'archive.tar.gz/table']
