"""C03 Classic tab-separated export/import round trip preserves IDs and values."""
import itertools
from sx.harness import *      # noqa
from sx import text as T
from sx import core

PROP = 'C03'

ID_MENUS = {
    'plain': (['b10', 'b9', 'c'], ['S2', 'S10', 'z']),
    'awkward': (['a b', 'x#y', 'q"1'], ['s 1', 'é/ü', '1e5']),
}
TAXA = [['[Eubacterium] rectale', 'g__[Ruminococcus]'], ['k__Archaea', '', ''], ['', 's__x'], ['k__Bacteria', 'p__Firmicutes'], ['single level']]


def _parts(x):
    return x.parts if isinstance(x, T.SText) else [x]


def _split_lines(doc):
    return doc.split('\n')


def _check_writer(lines, a, header_value, md_texts, sig, first_col='#OTU ID'):
    """the emitted text against the classic template; returns the list of per-cell terms or None"""
    nr, nc = len(a.obs_ids), len(a.samp_ids)
    if len(lines) != 2 + nr:
        fail('tsv:line-count', f"{len(lines)} lines for {nr} observations", **sig)
        return False
    if lines[0] != '# Constructed from biom file':
        fail('tsv:comment-line', repr(lines[0]), **sig)
        return False
    want_header = first_col + '\t' + '\t'.join(a.samp_ids) + ('\t' + header_value if header_value else '')
    if lines[1] != want_header:
        fail('tsv:header', f"{lines[1]!r} vs {want_header!r}", **sig)
        return False
    claims = []
    for i in range(nr):
        fields = lines[2 + i].split('\t')
        if len(fields) != 1 + nc + (1 if header_value else 0):
            fail('tsv:field-count', f"row {i}: {lines[2 + i]!r}", **sig)
            return False
        if fields[0] != a.obs_ids[i]:
            fail('tsv:obs-id', f"{fields[0]!r} vs {a.obs_ids[i]!r}", **sig)
            return False
        for j in range(nc):
            f = fields[1 + j]
            want = a.dense[i][j]
            if isinstance(f, T.SText):
                h = f.single_hole()
                if h is None or h.kind != 'num':
                    fail('tsv:cell-text', repr(f), **sig)
                    return False
                if h.spec not in ('str', 'repr'):
                    fail('tsv:value-format', f"cell written with {h.spec}", spec=h.spec, **sig)
                    return False
                claims.append(eq(h.term, want))
            else:
                try:
                    claims.append(eq(float(f), want))
                    if B().mode == 'conc' and float(f) != float(want):
                        fail('tsv:value-text-not-exact', f"{f!r} vs {want!r}", **sig)
                except ValueError:
                    fail('tsv:cell-text', repr(f), **sig)
                    return False
        if header_value and fields[-1] != md_texts[i]:
            fail('tsv:metadata-text', f"{fields[-1]!r} vs {md_texts[i]!r}", **sig)
            return False
    return prove('tsv:cells', and_(*claims), **sig)


VALUE_MENU = [1e-05, 2.5e+16, -3e-300, 0.1, 123456789.125, 1e+22, 5.0, -0.0078125]


def h_roundtrip(nr, nc, idk, with_md, concrete_values=False):
    b = B()
    oids, sids = ID_MENUS[idk]
    oids, sids = oids[:nr], sids[:nc]
    omd = [{'taxonomy': TAXA[k % len(TAXA)], 'other': k} for k in range(nr)] if with_md else None
    if concrete_values:
        # facet "shortest-repr text incl. exponent notation": values from a concrete menu (plain enumeration, no solver)
        import numpy as np
        dense = [[VALUE_MENU[choice(len(VALUE_MENU), f'value{i}{j}')] for j in range(nc)] for i in range(nr)]
        t = b.Table(np.array(dense, dtype=float), list(oids), list(sids))
        a = ATM(oids, sids, dense)
        a.info = {'layout': 'csr', 'unsorted': False, 'explicit_zero': False, 'history': 'none'}
    else:
        t, a = make_table(nr, nc, zeros=1, obs_ids=oids, samp_ids=sids, md='none')
    if omd:
        t.add_metadata({i: m for i, m in zip(oids, omd)}, axis='observation')
        a.obs_md = [dict(m) for m in omd]
    history = pick(['none', 'sort_order:sample'], 'history')
    t, a = apply_history(t, a, history)
    sig = dict(ids=idk, md=int(with_md), history=history)
    fmt = (lambda x: '; '.join(x))
    direct = flag('direct_io')
    kw = dict(header_key='taxonomy', header_value='Consensus Lineage', metadata_formatter=fmt) if with_md else {}
    first_col = pick(['#OTU ID', 'Feature ID'], 'first-column-name')       # the header line need not start with '#'
    if first_col != '#OTU ID':
        kw['observation_column_name'] = first_col
    if direct:
        fh = T.SFile() if b.mode == 'sym' else __import__('io').StringIO()
        _, e = call(lambda: t.to_tsv(direct_io=fh, **kw))
        doc = None if e else (fh.value() if b.mode == 'sym' else fh.getvalue())
        if doc is not None:
            if not (doc.endswith('\n') if isinstance(doc, str) else _parts(doc)[-1].endswith('\n')):
                fail('tsv:stream-last-newline', '', **sig)
                return
            doc = doc.rstrip('\n') if isinstance(doc, str) else T.mk(_parts(doc)[:-1] + [_parts(doc)[-1][:-1]])
    else:
        doc, e = call(lambda: t.to_tsv(**kw))
    if e is not None:
        fail('tsv:write-raised', f"{type(e).__name__}: {e}"[:160], **sig)
        return
    lines = _split_lines(doc)
    md_texts = ['; '.join(m['taxonomy']) for m in a.obs_md] if with_md else None
    if not _check_writer(lines, a, 'Consensus Lineage' if with_md else None, md_texts, sig, first_col):
        return
    # ---- read the very same text back
    form, via = pick([('list-of-lines', 'from_tsv'), ('handle', 'from_tsv'), ('list-of-lines', 'parse_biom_table'),
                      ('handle', 'parse_biom_table'), ('path', 'load_table'), ('gzip path', 'load_table')], 'input-form/reader')
    in_lines = [l + '\n' for l in lines]
    mk_handle = (lambda: T.SFile(in_lines)) if b.mode == 'sym' else (lambda: __import__('io').StringIO(''.join(in_lines)))
    src = in_lines if form == 'list-of-lines' else mk_handle()
    proc = (lambda x: [e_.strip() for e_ in x.split(';')])
    if via == 'from_tsv':
        t2, e = call(lambda: b.Table.from_tsv(src, None, None, proc if with_md else (lambda x: x)))
    else:
        # the generic entry point: falls through HDF5 -> JSON -> TSV; metadata comes back unprocessed (identity function)
        from checks.c14 import install_json_stub
        P = install_json_stub()
        proc = (lambda x: x)
        if via == 'parse_biom_table':
            t2, e = call(lambda: P.parse_biom_table(src))
        else:
            # a plain or gzip-compressed file on the modelled file system (checks/fsmodel.py), whatever its name
            import sx.env as env
            from checks import fsmodel
            U = env.module('biom.util')
            name = pick(['table.txt', 'table.tsv.gz', 'classic.gz.bak'], 'file-name')
            fs = fsmodel.FS()
            fs.put(name, 'gzip' if form == 'gzip path' else 'text', mk_handle)
            fsmodel.install(U, fs, b.h5)
            P.biom_open = U.biom_open
            sig = dict(sig, file=form, name=name)
            t2, e = call(lambda: P.load_table(name))
    if e is not None:
        all_zero = not any(is_sym(x) or x != 0 for r in a.dense for x in r)
        fail('tsv:read-raised', f"{type(e).__name__}: {e}"[:160], all_zero=int(all_zero), **sig)
        return
    exp = a.copy()
    exp.samp_md = None
    exp.type = None
    if with_md and via == 'from_tsv':
        exp.obs_md = [{'Consensus Lineage': [x.strip() for x in '; '.join(m['taxonomy']).strip().split(';')]} for m in a.obs_md]
    elif with_md:
        exp.obs_md = [{'Consensus Lineage': '; '.join(m['taxonomy']).strip()} for m in a.obs_md]
    same_table('tsv:roundtrip', observe(t2), exp, **sig)
    coherent('tsv:roundtrip:coherent', t2, **sig)


# ------------------------------------------------------------------ parser on the template with SYMBOLIC id text
def h_parser_symbolic_ids(nr, nc, with_md):
    b = B()
    dom = T.regex_excluding('\t\n\r', nonempty=True, no_outer_blank=True, not_starting='#')
    oids = [T.raw(f'o{i}', dom, 4) for i in range(nr)]
    sids = [T.raw(f's{j}', dom, 4) for j in range(nc)]
    if core.mode() == 'sym':
        for grp in (oids, sids):
            for x, y in itertools.combinations(grp, 2):
                assume(core.SBool(x.single_hole().term != y.single_hole().term))
    else:
        if len(set(oids)) != nr or len(set(sids)) != nc:
            raise Abort()
    vals = [[var(f'v_{i}_{j}', nonzero=True) for j in range(nc)] for i in range(nr)]
    mdtext = ['k__A; p__B', 'k__C; ; '][:nr] + ['x; y'] * max(0, nr - 2)

    def num(v):
        return T.SText([T.Hole('num', 'str', v)]) if is_sym(v) else repr(float(v))
    lines = ['# Constructed from biom file\n']
    hdr = ['#OTU ID']
    for s_ in sids:
        hdr += ['\t', s_]
    if with_md:
        hdr += ['\tConsensus Lineage']
    lines.append(T.mk(hdr + ['\n']))
    for i in range(nr):
        row = [oids[i]]
        for j in range(nc):
            row += ['\t', num(vals[i][j])]
        if with_md:
            row += ['\t', mdtext[i]]
        lines.append(T.mk(row + ['\n']))
    sig = dict(md=int(with_md), shape=f"{nr}x{nc}")
    r, e = call(lambda: b.Table._extract_data_from_tsv(lines))
    if e is not None:
        fail('parser:raised', f"{type(e).__name__}: {e}"[:160], **sig)
        return
    samp_ids, obs_ids, data, md, md_name = r

    def same_text(x, y):
        if isinstance(x, str) and isinstance(y, str):
            return x == y
        if isinstance(x, T.SText) and isinstance(y, T.SText):
            hx, hy = x.single_hole(), y.single_hole()
            return hx is not None and hy is not None and (hx is hy or bool(core.SBool(hx.term == hy.term)))
        return False
    if len(samp_ids) != nc or not all(same_text(x, y) for x, y in zip(samp_ids, sids)):
        fail('parser:sample-ids', f"{samp_ids!r}", **sig)
        return
    if len(obs_ids) != nr or not all(same_text(x, y) for x, y in zip(obs_ids, oids)):
        fail('parser:observation-ids', f"{obs_ids!r}", **sig)
        return
    want = [(i, j, vals[i][j]) for i in range(nr) for j in range(nc)]
    if [(d[0], d[1]) for d in data] != [(w[0], w[1]) for w in want]:
        fail('parser:coordinates', f"{[(d[0], d[1]) for d in data]}", **sig)
        return
    prove('parser:values', and_(*[eq(d[2], w[2]) for d, w in zip(data, want)]), **sig)
    if with_md:
        if md_name != 'Consensus Lineage' or md != [m.strip() for m in mdtext[:nr]]:
            fail('parser:metadata-column', f"{md_name!r} {md!r}", **sig)
    elif md is not None or md_name is not None:
        fail('parser:spurious-metadata', f"{md_name!r}", **sig)


# ------------------------------------------------------------------ biom convert (TSV branches), file I/O stubbed
def h_convert_cli(nr, nc):
    import sx.env as env
    b = B()
    M = env.module('biom.cli.table_converter')
    oids, sids = ID_MENUS['plain']
    t, a = make_table(nr, nc, zeros=0, obs_ids=oids[:nr], samp_ids=sids[:nc], md='none', unsorted=False, layouts=('csr',))
    taxa_sel = [TAXA[choice(len(TAXA), f'taxonomy{k}')] for k in range(nr)]
    t.add_metadata({i: {'taxonomy': list(x)} for i, x in zip(a.obs_ids, taxa_sel)}, axis='observation')
    written = {}

    class FakeFile:
        def __init__(self, name):
            self.name, self.buf = name, []

        def write(self, x):
            self.buf.append(x)

        def __enter__(self):
            return self

        def __exit__(self, *a_):
            written[self.name] = T.mk(self.buf) if any(isinstance(x, T.SText) for x in self.buf) else ''.join(self.buf)
            return False
    M.open = lambda fp, mode='r': FakeFile(fp)
    captured = []
    M.write_biom_table = lambda table, fmt, fp: captured.append((table, fmt))
    _, e = call(lambda: M._convert(t, 'out.tsv', to_tsv=True, header_key='taxonomy'))
    if e is not None or 'out.tsv' not in written:
        fail('convert:to-tsv-raised', repr(e)[:160])
        return
    doc = written['out.tsv']
    lines = [l + '\n' for l in doc.split('\n')]
    t2, e = call(lambda: b.Table.from_tsv(lines, None, None, lambda x: x))       # what load_table does for TSV input
    if e is not None:
        fail('convert:tsv-read-raised', repr(e)[:160])
        return
    proc = pick(['taxonomy', 'sc_separated'], 'process-obs-metadata')
    out_fmt = pick(['json', 'hdf5'], 'output-format')
    if out_fmt == 'json':
        _, e = call(lambda: M._convert(t2, 'out.biom', to_json=True, process_obs_metadata=proc))
        if e is not None or not captured:
            fail('convert:from-tsv-raised', repr(e)[:160])
            return
        res = captured[0][0]
    else:
        # down to the file: the real write_biom_table, with h5py.File(path, 'w') handing out an in-memory store
        from checks.h5spec import new_store
        CU = env.module('biom.cli.util')
        store = new_store()
        opened = []

        class _File:
            def __init__(self, fp, mode='r'):
                opened.append((fp, mode))

            def __enter__(self):
                return store

            def __exit__(self, *a_):
                return False

        class _H5:
            File = _File
        CU.h5py = _H5
        M.write_biom_table = CU.write_biom_table
        _, e = call(lambda: M._convert(t2, 'out.biom', to_hdf5=True, process_obs_metadata=proc))
        if e is not None or opened != [('out.biom', 'w')]:
            fail('convert:from-tsv-raised', f"{e!r} {opened}"[:160], output='hdf5')
            return
        res, e = call(lambda: b.Table.from_hdf5(store))
        if e is not None:
            fail('convert:written-hdf5-unreadable', repr(e)[:160])
            return
    exp = a.copy()
    exp.obs_md = [{'taxonomy': list(x)} for x in taxa_sel]
    if out_fmt == 'hdf5':
        # BIOM 2.1 stores ragged lists padded with empty strings: empty levels are outside the HDF5 domain (C01: "lists of
        # non-empty text"), the file holds the non-empty ones
        exp.obs_md = [{'taxonomy': [lvl for lvl in x if lvl != '']} for x in taxa_sel]
    exp.samp_md = None
    got = observe(res)
    got.type = exp.type = None
    same_table('convert:roundtrip', got, exp, process=proc, output=out_fmt)


HARNESSES = {'roundtrip': h_roundtrip, 'parser_symbolic_ids': h_parser_symbolic_ids, 'convert_cli': h_convert_cli}


def jobs(tier):
    out = []
    shapes = [(2, 2), (1, 2), (2, 1), (2, 3)] if tier == 'quick' else [(2, 2), (1, 2), (2, 1), (2, 3), (3, 2), (1, 1), (1, 3), (3, 1), (3, 3)]
    for nr, nc in shapes:
        for idk in ID_MENUS:
            for md in (False, True):
                out.append(('roundtrip', (nr, nc, idk, md)))
        for md in (False, True):
            out.append(('parser_symbolic_ids', (nr, nc, md)))
        if nr * nc <= 2:
            out.append(('roundtrip', (nr, nc, 'plain', False, True)))
            out.append(('roundtrip', (nr, nc, 'plain', True, True)))
    out.append(('convert_cli', (2, 2)))
    if tier != 'quick':
        out.append(('convert_cli', (3, 2)))
        out.append(('convert_cli', (2, 3)))
    return out



# heavy shards are split into disjoint parts of their path tree (run in parallel; together exactly the unsplit exploration)
def slices(job, tier):
    h, a = job
    return 4 if h == 'roundtrip' and a[0] * a[1] >= 6 and not (len(a) > 4 and a[4]) else 1

OPTS = {'quick': {'time_budget': 80, 'timeout_ms': 30000}, 'thorough': {'time_budget': 1200, 'timeout_ms': 60000}}

META = {
    'explanation': "C03: (1) the real delimited_self / to_tsv run with symbolic values: the emitted symbolic text must match the classic template (comment "
                   "line, header, one row per observation: id, str() of every cell incl. zeros, formatted metadata) with each cell's number hole carrying the "
                   "cell's term and an exact conversion; (2) the very same text is fed to the real from_tsv / _extract_data_from_tsv (list of lines and "
                   "seekable handle) and the table compared; (3) the parser is run on the template instantiated with SYMBOLIC observation and sample IDs (z3 "
                   "strings under the C03 ID domain) -- every strip/split/startswith/rsplit/float() it performs is decided by the solver; (4) `biom convert` "
                   "--to-tsv and back with --process-obs-metadata (file I/O stubbed), to JSON and, through the real write_biom_table, into an in-memory HDF5 store; (5) load_table on plain and gzip files of a modelled file system. 1xM, Nx1 and general shapes, sorted and reordered tables.",
    'encoded': {'biom/table.py': ['delimited_self', 'to_tsv', '_extract_data_from_tsv', 'from_tsv', '_to_dense', '_iter_obs'],
                'biom/cli/table_converter.py': ['_convert'], 'biom/cli/util.py': ['write_biom_table'], 'biom/parse.py': ['parse_biom_table', 'load_table'],
                'biom/util.py': ['biom_open', 'is_gzip']},
    'bounds': {'quick': {'shapes': '2x2, 1x2, 2x1, 2x3', 'symbolic ids': '|id| <= 4 printable ASCII'}, 'thorough': {'shapes': '+ 3x2, 1x1, 1x3, 3x1, 3x3'}},
    'outside': ['str(float64) re-parses to the same double (shortest-repr axiom of CPython/numpy dtoa -- not encodable here)', 'gzip decompression and real files (the operating system under biom_open is replaced by checks/fsmodel.py), click argument parsing',
                'ID text outside printable ASCII in the symbolic-ID step (the concrete menus include non-ASCII)'],
    'assumptions': ['a formatted number is one token without blanks/tabs (token axiom)', 'z3 sequence theory'],
}
