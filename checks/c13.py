"""C13 Value transforms touch only non-zero entries and mean what they say."""
from sx.harness import *      # noqa

PROP = 'C13'
AX = ('sample', 'observation')


def _nonzero_vals(vec):
    return [x for x in vec if is_sym(x) or x != 0]


def _skey(x):
    return str(x.z) if is_sym(x) else ('%r' % float(x))


def multiset_eq(a, b):
    if len(a) != len(b):
        return False
    if B().mode == 'conc':
        a, b = sorted(float(x) for x in a), sorted(float(x) for x in b)
    else:
        a, b = sorted(a, key=_skey), sorted(b, key=_skey)
    return and_(*[eq(x, y) for x, y in zip(a, b)])


FUNCS = {
    'double': (lambda v: v * 2, lambda vals: [x * 2 for x in vals]),
    'plus-one': (lambda v: v + 1, lambda vals: [x + 1 for x in vals]),
    'over-sum': (lambda v: v / v.sum() if len(v) else v, lambda vals: [x / ssum(vals) for x in vals]),
    'zero-all': (lambda v: v * 0, lambda vals: [0.0 for x in vals]),
    'minus-first': (lambda v: v - v[0] if len(v) else v, None),      # zeroes some entry, order dependent: protocol only
}


def h_transform(nr, nc, axis, fname, zeros):
    lo = 0 if fname == 'over-sum' else None
    t, a = make_table(nr, nc, md='both', zeros=zeros, type_='OTU table', lo=lo)
    inplace = flag('inplace')
    f_impl, f_ref = FUNCS[fname]
    calls = []

    def f(v, i, m):
        calls.append(([x for x in v], str(i), m))
        return f_impl(v)
    sig = dict(axis=axis, f=fname, explicit_zero=int(a.info['explicit_zero']))
    res, e = call(lambda: t.transform(f, axis=axis, inplace=inplace))
    if e is not None:
        fail('transform:raised', repr(e)[:150], **sig)
        return
    N = len(a.ids(axis))
    if [c[1] for c in calls] != a.ids(axis):
        fail('transform:call-order', f"{[c[1] for c in calls]}", **sig)
        return
    md = a.md(axis)
    ok = True
    for k, (vals, i, m) in enumerate(calls):
        if dict(m or {}) != md[k]:
            fail('transform:call-metadata', i, **sig)
        want = _nonzero_vals(a.vec(axis, k))
        if len(vals) != len(want):
            fail('transform:call-values-count', f"{i}: got {len(vals)} values, vector has {len(want)} non-zero entries", **sig)
            ok = False
        elif not prove('transform:call-values', multiset_eq(vals, want), **sig):
            ok = False
    got = observe(res)
    coherent('transform:coherent', res, **sig)
    if f_ref is not None and ok:
        exp = a.copy()
        for k in range(N):
            vec = a.vec(axis, k)
            nz = [q for q, x in enumerate(vec) if is_sym(x) or x != 0]
            new = f_ref([vec[q] for q in nz])
            for q, x in zip(nz, new):
                if axis == 'observation':
                    exp.dense[k][q] = x
                else:
                    exp.dense[q][k] = x
        same_table('transform:result', got, exp, type_=True, **sig)
    # zero cells stay zero (also explicitly stored zeros), density never increases
    zero_cells = [(i, j) for i in range(nr) for j in range(nc) if not is_sym(a.dense[i][j]) and a.dense[i][j] == 0]
    prove('transform:zero-cells-stay-zero', and_(*[eq(got.dense[i][j], 0) for i, j in zero_cells]), **sig)
    if inplace:
        if res is not t:
            fail('transform:returns-self', '', **sig)
    else:
        same_table('transform:input-unchanged', observe(t), a, type_=True, **sig)


def h_norm(nr, nc, axis):
    t, a = make_table(nr, nc, md='none', zeros=1, type_='OTU table', lo=0)
    inplace = flag('inplace')
    N = len(a.ids(axis))
    sig = dict(axis=axis)
    res, e = call(lambda: t.norm(axis=axis, inplace=inplace))
    if e is not None:
        if a.info['explicit_zero']:
            raise Abort()           # a vector holding only stored zeros has total 0: 0/0, outside the claim
        fail('norm:raised', repr(e)[:150], **sig)
        return
    got = observe(res)
    exp = a.copy()
    sums = []
    for k in range(N):
        vec = a.vec(axis, k)
        tot = ssum(vec)
        if not any(is_sym(x) or x != 0 for x in vec):
            continue
        for q, x in enumerate(vec):
            y = x / tot if (is_sym(x) or x != 0) else 0.0
            if axis == 'observation':
                exp.dense[k][q] = y
            else:
                exp.dense[q][k] = y
        sums.append(eq(ssum(got.vec(axis, k)), 1))
    if any(not is_sym(x) and x != x for r in got.dense for x in r):
        raise Abort()
    if same_table('norm:proportions', got, exp, type_=True, **sig):
        prove('norm:sums-to-one', and_(*sums), **sig)
    if not inplace:
        same_table('norm:input-unchanged', observe(t), a, type_=True, **sig)


def h_pa(nr, nc):
    t, a = make_table(nr, nc, md='none', zeros=1, type_='OTU table')
    inplace = flag('inplace')
    res, e = call(lambda: t.pa(inplace=inplace))
    if e is not None:
        fail('pa:raised', repr(e)[:150])
        return
    exp = a.copy()
    exp.dense = [[1.0 if (is_sym(x) or x != 0) else 0.0 for x in r] for r in a.dense]
    same_table('pa', observe(res), exp, type_=True)
    if res.nnz != sum(1 for r in exp.dense for x in r if x):
        fail('pa:nnz', str(res.nnz))


def _ref_rank(vals, method):
    n = len(vals)
    out = []
    for i in range(n):
        less = sum(1 for j in range(n) if j != i and bool(vals[j] < vals[i]))
        eqs = sum(1 for j in range(n) if j != i and bool(eq(vals[j], vals[i])))
        if method == 'min':
            out.append(less + 1.0)
        elif method == 'max':
            out.append(less + eqs + 1.0)
        elif method == 'average':
            out.append(less + 1 + eqs / 2.0)
        elif method == 'ordinal':
            out.append(less + 1.0 + sum(1 for j in range(i) if bool(eq(vals[j], vals[i]))))
    return out


def h_rank(nr, nc, axis, method):
    t, a = make_table(nr, nc, md='none', zeros=0, type_='OTU table', unsorted=(method == 'average'))
    inplace = flag('inplace')
    res, e = call(lambda: t.rankdata(axis=axis, inplace=inplace, method=method))
    sig = dict(axis=axis, method=method)
    if e is not None:
        fail('rank:raised', repr(e)[:150], **sig)
        return
    exp = a.copy()
    for k in range(len(a.ids(axis))):
        vec = a.vec(axis, k)
        nz = [q for q, x in enumerate(vec) if is_sym(x) or x != 0]
        if method == 'ordinal':
            # ordinal ranks break ties by position in the vector handed over (stored order): only distinct-valued paths are claimed
            vals = [vec[q] for q in nz]
            if any(bool(eq(vals[i], vals[j])) for i in range(len(vals)) for j in range(i)):
                raise Abort()
        ranks = _ref_rank([vec[q] for q in nz], method)
        for q, r in zip(nz, ranks):
            if axis == 'observation':
                exp.dense[k][q] = r
            else:
                exp.dense[q][k] = r
    same_table('rank', observe(res), exp, type_=True, **sig)


def h_axis_independent(nr, nc, fname):
    t, a = make_table(nr, nc, md='none', zeros=0, type_='OTU table')
    f_impl, _ = FUNCS[fname]
    t2 = a.twin()
    r1 = t.transform(lambda v, i, m: f_impl(v), axis='sample', inplace=False)
    r2 = t2.transform(lambda v, i, m: f_impl(v), axis='observation', inplace=False)
    same_table('elementwise-axis-independent', observe(r1), observe(r2), type_=True, f=fname)


def h_cli(nr, nc, axis, mode):
    """`biom normalize-table`: the click command's callback with file I/O stubbed"""
    import sx.env as env
    mod = env.module('biom.cli.table_normalizer')
    t, a = make_table(nr, nc, md='none', zeros=0, type_='OTU table', lo=0, unsorted=False)
    written = []
    mod.load_table = lambda fp: t
    mod.write_biom_table = lambda table, fmt, fp: written.append((table, fmt, fp))
    via = pick(['callback', 'helper'], 'via')
    rel, pa = (mode == 'relative'), (mode == 'pa')
    if via == 'callback':
        cb = mod.normalize_table.callback
        _, e = call(lambda: cb(input_fp='in.biom', output_fp='out.biom', relative_abund=rel, presence_absence=pa, axis=axis))
        res = written[0][0] if written else None
    else:
        res, e = call(lambda: mod._normalize_table(t, rel, pa, axis))
    sig = dict(axis=axis, mode=mode, via=via)
    if e is not None or res is None:
        fail('cli:raised', repr(e)[:150], **sig)
        return
    exp = a.copy()
    if pa:
        exp.dense = [[1.0 if (is_sym(x) or x != 0) else 0.0 for x in r] for r in a.dense]
    else:
        for k in range(len(a.ids(axis))):
            vec = a.vec(axis, k)
            tot = ssum(vec)
            for q, x in enumerate(vec):
                y = x / tot if (is_sym(x) or x != 0) else 0.0
                if axis == 'observation':
                    exp.dense[k][q] = y
                else:
                    exp.dense[q][k] = y
    same_table('cli:normalize-table', observe(res), exp, **sig)
    for bad in ((False, False), (True, True)):
        _, e = call(lambda: mod._normalize_table(t, bad[0], bad[1], axis))
        if not isinstance(e, ValueError):
            fail('cli:bad-flags-accepted', str(bad), **sig)


HARNESSES = {'transform': h_transform, 'norm': h_norm, 'pa': h_pa, 'rank': h_rank, 'axis_independent': h_axis_independent, 'cli': h_cli}


def jobs(tier):
    out = []
    shapes = [(2, 2), (2, 3)] if tier == 'quick' else [(2, 2), (2, 3), (3, 2), (3, 3)]
    for nr, nc in shapes:
        for ax in AX:
            for fn in FUNCS:
                z = 1 if nr * nc <= (4 if tier == 'quick' else 6) else 0
                if fn == 'over-sum':
                    z = 0       # a vector of stored zeros only would be 0/0
                out.append(('transform', (nr, nc, ax, fn, z)))
            out.append(('norm', (nr, nc, ax)))
            for method in ('average', 'min', 'max', 'ordinal'):
                if tier == 'quick' and method in ('max',) and nr * nc > 4:
                    continue
                out.append(('rank', (nr, nc, ax, method)))
            for mode in ('relative', 'pa'):
                out.append(('cli', (nr, nc, ax, mode)))
        out.append(('pa', (nr, nc)))
        for fn in ('double', 'plus-one', 'zero-all'):
            out.append(('axis_independent', (nr, nc, fn)))
    return out


def weight(job):
    return {'rank': 9, 'norm': 8, 'transform': 5}.get(job[0], 1) * job[1][0] * job[1][1]



# heavy shards are split into disjoint parts of their path tree (run in parallel; together exactly the unsplit exploration)
def slices(job, tier):
    h, a = job
    return 3 if h in ('rank', 'axis_independent', 'transform', 'norm') and a[0] * a[1] >= 6 else 1

OPTS = {'quick': {'time_budget': 60}, 'thorough': {'time_budget': 900}}

META = {
    'explanation': "C13: Table.transform with recorded user functions, the translated _transform.pyx kernel, norm, pa, rankdata and the "
                   "normalize-table command (click callback with I/O stubbed), from every representation state, both axes, in place or not: "
                   "the function is called once per vector in order with exactly the non-zero values, id and metadata; results are written back to "
                   "the same cells (solver, distinct symbolic values per cell); zero cells (also explicitly stored zeros) stay zero; norm = v / total "
                   "(same division term) and sums to 1; pa; ranks of the non-zero values for 4 tie methods; element-wise functions are axis independent.",
    'encoded': {'biom/table.py': ['transform', 'norm', 'pa', 'rankdata', '_get_sparse_data', '_axis_to_num', 'copy'],
                'biom/_transform.pyx': ['_transform'], 'biom/cli/table_normalizer.py': ['normalize_table', '_normalize_table']},
    'bounds': {'quick': {'shapes': '2x2 (<=1 explicit zero), 2x3'}, 'thorough': {'shapes': '2x2, 2x3, 3x2, 3x3'}},
    'outside': ['rank method dense', 'ordinal ranks with tied values (position dependent)', 'vectors holding only stored zeros under norm (0/0)',
                'IEEE rounding of quotients', 'real file I/O of the command'],
    'assumptions': ['scipy.stats.rankdata stub = standard rank definitions', 'load_table / write_biom_table of the command are stubbed'],
}
