"""C16 Equality and serialisation depend only on content, never on representation."""
import itertools
from sx.harness import *      # noqa
from sx.harness import _arr, _cp

PROP = 'C16'


class _IdsView:
    """ATM whose id lists are handed to the constructor as object-dtype arrays (as pandas would)"""

    def __init__(self, atm):
        import numpy as np
        self.__dict__.update(atm.__dict__)
        self.obs_ids = np.array(list(atm.obs_ids), dtype=object)
        self.samp_ids = np.array(list(atm.samp_ids), dtype=object)


def alt_table(atm, cells_dense, route, object_ids=False):
    """a second table with the SAME content as `atm`, built through a different route"""
    import numpy as np
    b = B()
    if object_ids and route in ('csr-sorted', 'csc', 'dense-array', 'explicit-zero', 'csr-reversed'):
        atm = _IdsView(atm)
    nr, nc = len(atm.obs_ids), len(atm.samp_ids)
    D = cells_dense
    omd, smd = _cp(atm.obs_md), _cp(atm.samp_md)

    def csr_with(zero_cells=(), reverse=False):
        data, indices, indptr = [], [], [0]
        for i in range(nr):
            cols = [j for j in range(nc) if is_sym(D[i][j]) or D[i][j] != 0 or (i, j) in zero_cells]
            if reverse:
                cols = cols[::-1]
            for j in cols:
                data.append(D[i][j] if (is_sym(D[i][j]) or D[i][j] != 0) else 0.0)
                indices.append(j)
            indptr.append(len(data))
        return b.csr((_arr(data), indices, indptr), shape=(nr, nc))

    zero_abs = [(i, j) for i in range(nr) for j in range(nc) if not is_sym(D[i][j]) and D[i][j] == 0]
    if route == 'csr-sorted':
        t = b.Table(csr_with(), atm.obs_ids, atm.samp_ids, omd, smd, type=atm.type)
    elif route == 'csr-reversed':
        t = b.Table(csr_with(reverse=True), atm.obs_ids, atm.samp_ids, omd, smd, type=atm.type)
    elif route == 'explicit-zero':
        if not zero_abs:
            raise Abort()
        z = zero_abs[choice(len(zero_abs), 'which-zero')]
        t = b.Table(csr_with(zero_cells={z}), atm.obs_ids, atm.samp_ids, omd, smd, type=atm.type)
    elif route == 'csc':
        t = b.Table(csr_with().tocsc(), atm.obs_ids, atm.samp_ids, omd, smd, type=atm.type)
        t._data = t._data.tocsc()
    elif route == 'coo':
        m = csr_with().tocoo()
        t = b.Table(m, atm.obs_ids, atm.samp_ids, omd, smd, type=atm.type)
    elif route == 'dense-array':
        arr = np.empty((nr, nc), dtype=object if b.mode == 'sym' else float)
        for i in range(nr):
            for j in range(nc):
                arr[i, j] = D[i][j]
        t = b.Table(arr, atm.obs_ids, atm.samp_ids, omd, smd, type=atm.type)
    elif route == 'triples':
        tr = [[i, j, D[i][j]] for i in range(nr) for j in range(nc) if is_sym(D[i][j]) or D[i][j] != 0]
        if not tr:
            raise Abort()
        t = b.Table(tr, atm.obs_ids, atm.samp_ids, omd, smd, type=atm.type)
    elif route == 'sort-then-inverse':
        t0 = b.Table(csr_with(), atm.obs_ids, atm.samp_ids, omd, smd, type=atm.type)
        t = t0.sort_order(atm.samp_ids[::-1], axis='sample').sort_order(list(atm.samp_ids), axis='sample')
        t = t.sort_order(atm.obs_ids[::-1], axis='observation').sort_order(list(atm.obs_ids), axis='observation')
    elif route == 'filter-keeping-all':
        t = b.Table(csr_with(), atm.obs_ids, atm.samp_ids, omd, smd, type=atm.type)
        t.filter(list(atm.samp_ids), axis='sample', inplace=True)
        t.filter(lambda v, i, m: True, axis='observation', inplace=True)
    elif route == 'larger-then-filtered':
        # an extra leading observation and sample, filtered away again: same content, different history
        data, indices, indptr = [7.0], [0], [0, 1]
        for i in range(nr):
            cols = [j for j in range(nc) if is_sym(D[i][j]) or D[i][j] != 0]
            data += [D[i][j] for j in cols]
            indices += [j + 1 for j in cols]
            indptr.append(len(data))
        big = b.csr((_arr(data), indices, indptr), shape=(nr + 1, nc + 1))
        omd2 = None if omd is None else [{'extra': 1}] + omd
        smd2 = None if smd is None else [{'extra': 1}] + smd
        t = b.Table(big, ['extra-o'] + list(atm.obs_ids), ['extra-s'] + list(atm.samp_ids), omd2, smd2, type=atm.type)
        t.filter(['extra-o'], axis='observation', invert=True, inplace=True)
        t = t.filter(lambda v, i, m: str(i) != 'extra-s', axis='sample', inplace=False)
    elif route == 'relabelled-by-permutation':
        # built under rotated names, then renamed into place: the new names are a permutation of the old ones
        ro = list(atm.obs_ids)[1:] + list(atm.obs_ids)[:1]
        rs = list(atm.samp_ids)[1:] + list(atm.samp_ids)[:1]
        t = b.Table(csr_with(), ro, rs, omd, smd, type=atm.type)
        t.update_ids(dict(zip(ro, atm.obs_ids)), axis='observation', inplace=True)
        t = t.update_ids(dict(zip(rs, atm.samp_ids)), axis='sample', inplace=False)
    elif route == 'copy':
        t = b.Table(csr_with(), atm.obs_ids, atm.samp_ids, omd, smd, type=atm.type).copy()
    else:
        raise ValueError(route)
    return t


ROUTES = ['csr-sorted', 'csr-reversed', 'explicit-zero', 'csc', 'coo', 'dense-array', 'triples', 'sort-then-inverse',
          'filter-keeping-all', 'larger-then-filtered', 'relabelled-by-permutation', 'copy']
ACCESSORS = ['none', 'nnz', 'data-sample', 'data-observation', 'iter', 'eq-self', 'sum', 'density', 'tsv-absent-key']


# further read-only calls, explored in the thorough tier with one side untouched or the same call on both sides
EXTRA_ACCESSORS = ['to-json', 'to-hdf5', 'str', 'nonzero', 'nonzero-counts', 'min-max', 'head', 'ids-and-matrix', 'value-by-ids',
                   'iter-pairwise', 'metadata-lookup', 'descriptive-equality', 'transpose-discarded', 'copy-discarded', 'is-empty-length']


def touch(t, how, atm):
    if how == 'nnz':
        t.nnz
    elif how == 'data-sample':
        t.data(atm.samp_ids[0], axis='sample')
    elif how == 'data-observation':
        t.data(atm.obs_ids[-1], axis='observation')
    elif how == 'iter':
        list(t.iter(axis='sample'))
    elif how == 'eq-self':
        t == t
    elif how == 'sum':
        t.sum('whole')
    elif how == 'density':
        t.get_table_density()
    elif how == 'tsv-absent-key':       # an export naming a metadata category no observation carries
        t.to_tsv(header_key='lineage', header_value='lineage')
    elif how == 'to-json':
        t.to_json('earlier')
    elif how == 'to-hdf5':
        from checks.h5spec import new_store
        import datetime
        t.to_hdf5(new_store(), 'earlier', creation_date=datetime.datetime(2020, 1, 1))
    elif how == 'str':
        t.__str__()
        t.__repr__()
    elif how == 'nonzero':
        list(t.nonzero())
    elif how == 'nonzero-counts':
        t.nonzero_counts('sample')
        t.nonzero_counts('observation', binary=False)
    elif how == 'min-max':
        call(lambda: t.min('whole'))      # (defined only where a vector has a non-zero entry: C19; here only the side effects matter)
        call(lambda: t.max('sample'))
    elif how == 'head':
        t.head(1, 1)
    elif how == 'ids-and-matrix':
        t.ids()
        t.ids(axis='observation')
        t.matrix_data
    elif how == 'value-by-ids':
        t.get_value_by_ids(atm.obs_ids[0], atm.samp_ids[-1])
        t[0, 0]
    elif how == 'iter-pairwise':
        list(t.iter_pairwise(axis='observation'))
        list(t.iter_data(axis='sample', dense=False))
    elif how == 'metadata-lookup':
        t.metadata(atm.obs_ids[0], axis='observation')
        t.metadata(axis='sample')
        t.group_metadata('sample')
    elif how == 'descriptive-equality':
        t.descriptive_equality(t)
    elif how == 'transpose-discarded':
        t.transpose()
    elif how == 'copy-discarded':
        t.copy()
    elif how == 'is-empty-length':
        t.is_empty()
        t.length('sample')
        t.shape


def _doc_equal(d1, d2):
    """two emitted documents (symbolic text or str): same literal text, same conversions, holes carrying equal terms"""
    from sx import text as T
    p1 = d1.parts if isinstance(d1, T.SText) else [d1]
    p2 = d2.parts if isinstance(d2, T.SText) else [d2]
    if len(p1) != len(p2):
        return False, []
    eqs = []
    for x, y in zip(p1, p2):
        if isinstance(x, str) or isinstance(y, str):
            if x != y:
                return False, []
        elif (x.kind, x.spec) != (y.kind, y.spec):
            return False, []
        else:
            eqs.append(eq(x.term, y.term))
    return True, eqs


def _exports_agree(A, Bt, sig, with_hdf5):
    import datetime
    date = datetime.datetime(2020, 2, 3, 4, 5, 6)
    for name, fn in (('tsv', lambda t: t.to_tsv()), ('json', lambda t: t.to_json('g', creation_date=date))):
        (d1, e1), (d2, e2) = call(lambda: fn(A)), call(lambda: fn(Bt))
        if e1 is not None or e2 is not None:
            fail('export:raised', f"{name}: {e1!r} {e2!r}"[:160], **sig)
            continue
        ok, eqs = _doc_equal(d1, d2)
        if not ok:
            fail('export:' + name + '-text-differs', f"{d1!r}"[:80] + ' vs ' + f"{d2!r}"[:80], **sig)
        else:
            prove('export:' + name + '-values', and_(*eqs), **sig)
    if with_hdf5:
        from checks.h5spec import new_store, decode
        outs = []
        for t in (A, Bt):
            st = new_store()
            _, e = call(lambda: t.to_hdf5(st, 'g', creation_date=date))
            if e is not None:
                fail('export:raised', f"hdf5: {e!r}"[:160], **sig)
                return
            outs.append(decode('export:hdf5', st, **sig))
        if outs[0] is None or outs[1] is None:
            return
        if outs[0]['observation_ids'] != outs[1]['observation_ids'] or outs[0]['sample_ids'] != outs[1]['sample_ids']:
            fail('export:hdf5-ids-differ', '', **sig)
        prove('export:hdf5-values', cells_equal(outs[0]['csr_dense'], outs[1]['csr_dense']), **sig)


def h_equal(nr, nc, route, accs=ACCESSORS):
    md = pick(['none', 'both', 'samp'] + (['obs'] if len(accs) == len(ACCESSORS) else []), 'md')      # metadata on one axis only, too
    A, a = make_table(nr, nc, md=md, zeros=1, type_='OTU table')
    Bt = alt_table(a, a.dense, route, object_ids=(len(accs) == len(ACCESSORS) and flag('ids-as-object-array')))
    if len(accs) == len(ACCESSORS):
        pairs = [(x, y) for x in accs for y in accs]
        for x in EXTRA_ACCESSORS:
            pairs += [(x, 'none'), ('none', x), (x, x)]
    else:       # quick tier: one side untouched, or the same call on both sides
        pairs = [(x, 'none') for x in accs] + [('none', y) for y in accs[1:]] + [(x, x) for x in accs[1:]]
    acc_a, acc_b = pairs[choice(len(pairs), 'read-only-calls-before')]
    touch(A, acc_a, a)
    touch(Bt, acc_b, a)
    sig = dict(route=route, a_explicit_zero=int(a.info['explicit_zero']))
    note('accessors', [acc_a, acc_b])
    exported = False
    if (route == 'explicit-zero' or a.info['explicit_zero']) and a.obs_ids and a.samp_ids and flag('export-before-compare'):
        # exports must not depend on whether == (which eliminates stored zeros) happened to run earlier
        _exports_agree(A, Bt, sig, with_hdf5=True)
        exported = True
    r1, e1 = call(lambda: A == Bt)
    r2, e2 = call(lambda: Bt == A)
    if e1 is not None or e2 is not None:
        fail('eq:raised', repr(e1 or e2)[:150], **sig)
        return
    if not r1:
        fail('eq:A==B', A.descriptive_equality(Bt), **sig)
    if not r2:
        fail('eq:B==A', Bt.descriptive_equality(A), **sig)
    if (A != Bt) or (Bt != A):
        fail('eq:ne-inconsistent', '', **sig)
    if not (A == A) or not (Bt == Bt):
        fail('eq:reflexive', '', **sig)
    C = A.copy()
    if not (C == A) or not (A == C):
        fail('eq:copy', '', **sig)
    if not (C == Bt):
        fail('eq:transitive', 'copy(A) == A, A == B but copy(A) != B', **sig)
    # equal tables answer every per-ID / per-cell query identically
    claims = []
    for i, o in enumerate(a.obs_ids):
        va, vb = list(A.data(o, axis='observation')), list(Bt.data(o, axis='observation'))
        if len(va) != len(vb) or len(va) != len(a.samp_ids):
            fail('eq:queries-vector-length', f"{len(va)} / {len(vb)} entries for {len(a.samp_ids)} samples", **sig)
        claims += [eq(x, y) for x, y in zip(va, vb)]
        for j, s_ in enumerate(a.samp_ids):
            claims.append(eq(A.get_value_by_ids(o, s_), Bt.get_value_by_ids(o, s_)))
    prove('eq:queries-agree', and_(*claims), **sig)
    for ax, ids_ in (('observation', a.obs_ids), ('sample', a.samp_ids)):
        for k_, i_ in enumerate(ids_):
            if A.index(i_, ax) != Bt.index(i_, ax) or Bt.index(i_, ax) != k_ or not Bt.exists(i_, axis=ax):
                fail('eq:index-agree', f"{ax} {i_}: {A.index(i_, ax)} vs {Bt.index(i_, ax)}", **sig)
            if (A.metadata(i_, axis=ax) or None) != (Bt.metadata(i_, axis=ax) or None):
                fail('eq:metadata-by-id-agree', f"{ax} {i_}", **sig)
        if Bt.exists('extra-o', axis=ax) or Bt.exists('extra-s', axis=ax):
            fail('eq:removed-id-still-known', ax, **sig)
    if A.nnz != Bt.nnz or abs(A.get_table_density() - Bt.get_table_density()) > 1e-12:
        fail('eq:nnz-density-agree', f"{A.nnz} vs {Bt.nnz}", **sig)
    # and still equal afterwards
    if not (A == Bt):
        fail('eq:after-queries', '', **sig)
    same_table('eq:content', observe(Bt), a, type_=True, **sig)
    # tables that compare equal export the same IDs, values and metadata
    if not a.samp_ids or not a.obs_ids or exported:
        return
    _exports_agree(A, Bt, sig, with_hdf5=(len(accs) == len(ACCESSORS) or route == 'explicit-zero'))


DIFFS = ['value', 'two-values', 'value-to-zero', 'zero-to-value', 'obs-id', 'samp-id', 'obs-order', 'samp-order', 'md-entry', 'md-missing', 'type']


def h_unequal(nr, nc, diff):
    A, a = make_table(nr, nc, md='both', zeros=1, type_='OTU table')
    b = a.copy()
    D = [list(r) for r in a.dense]
    nz = [(i, j) for i in range(nr) for j in range(nc) if is_sym(D[i][j]) or D[i][j] != 0]
    zs = [(i, j) for i in range(nr) for j in range(nc) if (i, j) not in nz]
    if diff == 'value':
        if not nz:
            raise Abort()
        i, j = nz[choice(len(nz), 'cell')]
        w = var('w_other', nonzero=True)
        assume(not_(eq(w, D[i][j])) if B().mode == 'sym' else w != D[i][j])
        D[i][j] = w
    elif diff == 'two-values':
        # two cells change by independent symbolic amounts: any aggregate comparison (sum of differences, totals, ...) is
        # fooled by the pair the solver finds (C16-w7m1: `(A - B).sum() != 0`)
        if len(nz) < 2:
            raise Abort()
        c = choice(len(nz), 'cell')
        (i, j), (i2, j2) = nz[c], nz[(c + 1) % len(nz)]
        w, w2 = var('w_other', nonzero=True), var('w_other2', nonzero=True)
        assume(not_(eq(w, D[i][j])) if B().mode == 'sym' else w != D[i][j])
        D[i][j], D[i2][j2] = w, w2
    elif diff == 'value-to-zero':
        if not nz:
            raise Abort()
        i, j = nz[choice(len(nz), 'cell')]
        D[i][j] = 0.0
    elif diff == 'zero-to-value':
        if not zs:
            raise Abort()
        i, j = zs[choice(len(zs), 'cell')]
        D[i][j] = var('w_other', nonzero=True)
    b.dense = D
    if diff in ('obs-id', 'samp-id'):
        ids = list(b.obs_ids if diff == 'obs-id' else b.samp_ids)
        how = pick(['extend-longest', 'extend-last', 'replace-first-char'], 'id-change')
        if how == 'extend-longest':
            k = max(range(len(ids)), key=lambda q: len(ids[q]))
            ids[k] = ids[k] + '0'
        elif how == 'extend-last':
            ids[-1] = ids[-1] + '.1'
        else:
            ids[0] = 'X' + ids[0][1:]
        if diff == 'obs-id':
            b.obs_ids = ids
        else:
            b.samp_ids = ids
    elif diff in ('obs-order', 'samp-order'):
        ax = 'observation' if diff.startswith('obs') else 'sample'
        n = len(b.ids(ax))
        b = b.select(ax, [1, 0] + list(range(2, n)))
        # a swap that moves nothing observable (identical vectors and metadata) is not a difference
    elif diff == 'md-entry':
        b.obs_md = [dict(m) for m in b.obs_md]
        b.obs_md[0]['n'] = 99
    elif diff == 'md-missing':
        b.samp_md = None
    elif diff == 'type':
        b.type = 'Pathway table'
    route = pick(['csr-sorted', 'csc', 'dense-array', 'explicit-zero'], 'route')
    Bt = alt_table(b, b.dense, route, object_ids=flag('ids-as-object-array'))
    touch(A, pick(['none', 'nnz'], 'acc'), a)
    sig = dict(diff=diff, route=route)
    if (A == Bt) or (Bt == A):
        fail('ne:compared-equal', A.descriptive_equality(Bt), **sig)
    if not (A != Bt):
        fail('ne:ne-false', '', **sig)


HARNESSES = {'equal': h_equal, 'unequal': h_unequal}


def jobs(tier):
    out = []
    shapes = [(2, 2)] if tier == 'quick' else [(2, 2), (2, 3), (3, 2)]
    for nr, nc in shapes:
        for r in ROUTES:
            out.append(('equal', (nr, nc, r) + ((['none', 'nnz', 'data-sample', 'tsv-absent-key'],) if tier == 'quick' else ())))
        for d in DIFFS:
            out.append(('unequal', (nr, nc, d)))
    return out


OPTS = {'quick': {'time_budget': 70}, 'thorough': {'time_budget': 900}}

META = {
    'explanation': "C16: pairs of tables sharing the SAME symbolic dense matrix but built through different routes (sparse layouts, index orders, "
                   "explicit zeros, dense / triple / COO constructor input, sort+inverse, filter-keeping-all, a larger table filtered down, renaming by a permutation of the names, copy) with read-only calls interleaved "
                   "must compare equal (both directions, !=, reflexive, copy, transitive through the copy), answer per-ID / per-cell queries with "
                   "the same terms and export the same TSV / JSON documents (symbolic documents compared chunk by chunk, holes by the solver; HDF5 stores in the thorough tier); pairs assumed to differ in one value, in two values at once (symbolic amounts, so cancelling pairs are included) / ID / order / metadata entry / type must compare unequal.",
    'encoded': {'biom/table.py': ['__eq__', '__ne__', 'descriptive_equality', '_data_equality', 'nnz', 'data', 'get_value_by_ids', 'copy',
                                  '__init__', '_to_sparse', 'nparray_to_sparse', 'list_list_to_sparse', 'sort_order', 'filter',
                                  'get_table_density', 'iter', 'sum']},
    'bounds': {'quick': {'shapes': '2x2, <=1 explicit zero per table, 12 construction routes x 10 read-only-call pairs (none / nnz / data / TSV export naming an absent metadata category; one side untouched or the same call on both)'},
               'thorough': {'shapes': '2x2, 2x3, 3x2; all 9x9 pairs of read-only calls'}},
    'outside': ['NaN values', 'HDF5 export equality in the quick tier (thorough only; C04 proves the written content is a function of the content for every representation)'],
    'assumptions': ['scipy.sparse model of != / tocsr / eliminate_zeros'],
}
