"""C12 Subsampling (rarefaction) draws exactly n counts per vector, never inventing any."""
import itertools
from sx.harness import *      # noqa
from sx.harness import _arr
from sx.models import rng as RNG

PROP = 'C12'


def conc_setup(b):
    """replays drive the real code with the solver's RNG outcome: numpy's default_rng is replaced by the scripted stub"""
    import numpy
    numpy.random.default_rng = RNG.default_rng


def _kernel():
    import sx.env as env
    return env.module('biom._subsample').subsample


def _vectors(nvec, maxlen):
    """structure of a compressed matrix with nvec vectors of 0..maxlen stored entries; counts are symbolic ints >= 0"""
    lens = [choice(maxlen + 1, f'len{v}') for v in range(nvec)]
    data, indices, indptr = [], [], [0]
    for v, L in enumerate(lens):
        for e in range(L):
            data.append(var(f"c_{v}_{e}", 'int', lo=0))
            indices.append(e)
        indptr.append(len(data))
    return lens, data, indices, indptr


def h_kernel_noreplace(nvec, maxlen, n):
    b = B()
    lens, data, indices, indptr = _vectors(nvec, maxlen)
    cls = b.csr if flag('csc') is False else b.csc
    shape = (nvec, maxlen) if cls is b.csr else (maxlen, nvec)
    arr = cls((_arr(data), indices, indptr), shape=shape)
    # decide which vectors have enough counts before the call, so that the path condition is explicit
    totals = [ssum(data[indptr[v]:indptr[v + 1]]) for v in range(nvec)]
    enough = [bool(totals[v] >= n) for v in range(nvec)]
    g = RNG.Generator(0)
    res, e = call(lambda: _kernel()(arr, n, False, g))
    sig = dict(n=n)
    if e is not None:
        fail('kernel:raised', repr(e)[:150], **sig)
        return
    draws = [d for d in g.draws if d[0] == 'choice']
    if len(draws) != sum(enough):
        fail('kernel:rng-calls', f"{len(draws)} draws for {sum(enough)} vectors with total >= n", **sig)
        return
    out = list(arr.data)
    if len(out) != len(data) or [int(x) for x in arr.indptr] != indptr:
        fail('kernel:structure-changed', f"{list(arr.indptr)}", **sig)
        return
    k = 0
    for v in range(nvec):
        s, e_ = indptr[v], indptr[v + 1]
        if not enough[v]:
            prove('kernel:insufficient-vector-zeroed', and_(*[eq(out[p], 0) for p in range(s, e_)]), **sig)
            continue
        _, total_arg, ps = draws[k]
        k += 1
        prove('kernel:draws-over-total', eq(total_arg, totals[v]), **sig)
        # reference: entry e receives the number of drawn unit indices falling into its prefix-sum window
        claims = []
        prefix = 0
        for p in range(s, e_):
            lo, hi = prefix, prefix + data[p]
            cnt = ssum(ite(and_(q >= lo, q < hi), 1, 0) for q in ps)
            claims.append(eq(out[p], cnt))
            prefix = hi
        prove('kernel:prefix-window-count', and_(*claims), **sig)
        prove('kernel:sums-to-n', eq(ssum(out[s:e_]), n), **sig)
        prove('kernel:bounded-by-original', and_(*[and_(out[p] >= 0, out[p] <= data[p]) for p in range(s, e_)]), **sig)


def h_kernel_replace(nvec, maxlen, n):
    b = B()
    lens, data, indices, indptr = _vectors(nvec, maxlen)
    arr = b.csc((_arr(data), indices, indptr), shape=(maxlen, nvec))
    totals = [ssum(data[indptr[v]:indptr[v + 1]]) for v in range(nvec)]
    positive = [bool(totals[v] > 0) for v in range(nvec)]
    g = RNG.Generator(0)
    res, e = call(lambda: _kernel()(arr, n, True, g))
    sig = dict(n=n, empty_vector=int(any(L == 0 for L in lens)), zero_total_vector=int(not all(positive)))
    if e is not None:
        fail('kernel-replace:raised', repr(e)[:150], **sig)
        return
    out = list(arr.data)
    for v in range(nvec):
        s, e_ = indptr[v], indptr[v + 1]
        if positive[v]:
            prove('kernel-replace:sums-to-n', eq(ssum(out[s:e_]), n), **sig)
            prove('kernel-replace:only-where-original', and_(*[and_(out[p] >= 0, or_(data[p] != 0, eq(out[p], 0)))
                                                             for p in range(s, e_)]), **sig)


def _count_table(nr, nc, zeros=1):
    return make_table(nr, nc, kind='int', lo=1, md='both', zeros=zeros, type_='OTU table')


def h_table_counts(nr, nc, axis, n, replace):
    t, a = _count_table(nr, nc)
    inv = 'observation' if axis == 'sample' else 'sample'
    N = len(a.ids(axis))
    totals = [ssum(a.vec(axis, k)) for k in range(N)]
    if replace:
        keep_pre = [bool(totals[k] > 0) for k in range(N)]
    else:
        keep_pre = [bool(totals[k] >= n) for k in range(N)]
    via = 'method' if replace else pick(['method', 'generate_subsamples'], 'via')
    seed = pick([0, 7], 'seed') if via == 'method' else None
    RNG.reset()
    sig = dict(axis=axis, replace=int(replace), n=n, via=via)
    if via == 'method':
        res, e = call(lambda: t.subsample(n, axis=axis, with_replacement=replace, seed=seed))
    else:
        # the generator API: every yielded table is one subsample of the (never modified) input; look at the second one
        import sx.env as env
        U = env.module('biom.util')
        gen = U.generate_subsamples(t, n, axis=axis)
        first, e = call(lambda: next(gen))
        if e is None:
            same_table('subsample:input-unchanged', observe(t), a, type_=True, after='first-yield', **sig)
            res, e = call(lambda: next(gen))
    if e is not None:
        fail('subsample:raised', repr(e)[:160], all_vectors_have_entries=int(all(bool(totals[k] > 0) for k in range(N))), **sig)
        return
    if via == 'method' and (len(RNG.LOG) != 1 or RNG.LOG[0].seed != seed):
        fail('subsample:seeding', f"{len(RNG.LOG)} generators, seeds {[g.seed for g in RNG.LOG]} for seed={seed}", **sig)
    got = observe(res)
    coherent('subsample:coherent', res, **sig)
    exp_ids = [a.ids(axis)[k] for k in range(N) if keep_pre[k]]
    # a retained vector can still vanish only if it sums to 0 -- impossible for n >= 1
    if got.ids(axis) != exp_ids:
        fail('subsample:retained-ids', f"{got.ids(axis)} vs {exp_ids}", **sig)
        return
    claims_sum, claims_bound, claims_nz = [], [], []
    for k2, i in enumerate(got.ids(axis)):
        k = a.ids(axis).index(i)
        vec = got.vec(axis, k2)
        claims_sum.append(eq(ssum(vec), n))
        for q2, j in enumerate(got.ids(inv)):
            q = a.ids(inv).index(j)
            orig = a.vec(axis, k)[q]
            if replace:
                claims_bound.append(and_(vec[q2] >= 0, or_(orig != 0, eq(vec[q2], 0))))
            else:
                claims_bound.append(and_(vec[q2] >= 0, vec[q2] <= orig))
    prove('subsample:each-vector-sums-to-n', and_(*claims_sum), **sig)
    prove('subsample:entries-bounded-by-original', and_(*claims_bound), **sig)
    for q2 in range(len(got.ids(inv))):
        claims_nz.append(ssum(got.vec(inv, q2)) > 0)
    prove('subsample:no-empty-other-axis-vector', and_(*claims_nz), **sig)
    if got.md(axis) is not None and got.md(axis) != [a.md(axis)[a.ids(axis).index(i)] for i in got.ids(axis)]:
        fail('subsample:metadata', '', **sig)
    same_table('subsample:input-unchanged', observe(t), a, type_=True, **sig)


def h_table_by_id(nr, nc, axis, n):
    t, a = _count_table(nr, nc)
    inv = 'observation' if axis == 'sample' else 'sample'
    N = len(a.ids(axis))
    via = pick(['method', 'generate_subsamples'], 'via')
    seed = pick([0, 3], 'seed') if via == 'method' else None
    RNG.reset()
    sig = dict(axis=axis, n=n, via=via)
    if via == 'method':
        res, e = call(lambda: t.subsample(n, axis=axis, by_id=True, seed=seed))
    else:
        import sx.env as env
        gen = env.module('biom.util').generate_subsamples(t, n, axis=axis, by_id=True)
        _, e = call(lambda: next(gen))
        if e is None:
            same_table('by-id:input-unchanged', observe(t), a, type_=True, after='first-yield', **sig)
            res, e = call(lambda: next(gen))
    if e is not None:
        fail('by-id:raised', repr(e)[:160], **sig)
        return
    if via == 'method' and (len(RNG.LOG) != 1 or RNG.LOG[0].seed != seed):
        fail('by-id:seeding', f"{[g.seed for g in RNG.LOG]} for seed={seed}", **sig)
    got = observe(res)
    if len(got.ids(axis)) != min(n, N):
        # ids whose vectors are all-zero may additionally vanish only through the other-axis filter -- not on this axis
        fail('by-id:count', f"{len(got.ids(axis))} ids kept, min(n,N)={min(n, N)}", **sig)
        return
    if not set(got.ids(axis)) <= set(a.ids(axis)) or got.ids(axis) != [i for i in a.ids(axis) if i in got.ids(axis)]:
        fail('by-id:ids', f"{got.ids(axis)}", **sig)
        return
    keep = [a.ids(axis).index(i) for i in got.ids(axis)]
    exp = a.select(axis, keep)
    kept_inv = [q for q in range(len(exp.ids(inv))) if bool(ssum(exp.vec(inv, q)) > 0)]
    exp = exp.select(inv, kept_inv)
    same_table('by-id:values-unchanged', got, exp, type_=True, **sig)
    coherent('by-id:coherent', res, **sig)
    same_table('by-id:input-unchanged', observe(t), a, type_=True, **sig)
    for args in (dict(n=-1), dict(n=1, by_id=True, with_replacement=True)):
        _, e = call(lambda: t.subsample(**args))
        if not isinstance(e, ValueError):
            fail('subsample:bad-arguments-accepted', str(args), **sig)


HARNESSES = {'kernel_noreplace': h_kernel_noreplace, 'kernel_replace': h_kernel_replace, 'table_counts': h_table_counts,
             'table_by_id': h_table_by_id}


def jobs(tier):
    out = []
    kn = [(2, 3, n) for n in (1, 2, 3)] + [(1, 4, 2), (1, 4, 4)] if tier == 'quick' else [(2, 3, n) for n in (1, 2, 3)] + [(1, 4, n) for n in (1, 2, 3, 4)] + [(3, 2, 2)]
    for nv, ml, n in kn:
        out.append(('kernel_noreplace', (nv, ml, n)))
        out.append(('kernel_replace', (nv, ml, n)))
    shapes = [(2, 2)] if tier == 'quick' else [(2, 2), (2, 3), (3, 2)]
    for nr, nc in shapes:
        for ax in ('sample', 'observation'):
            for n in ((1, 2) if tier == 'quick' else (1, 2, 3)):
                for rep in (False, True):
                    out.append(('table_counts', (nr, nc, ax, n, rep)))
            for n in (1, 2, 3):
                out.append(('table_by_id', (nr, nc, ax, n)))
    return out


OPTS = {'quick': {'time_budget': 60}, 'thorough': {'time_budget': 900}}

META = {
    'explanation': "C12: the translated _subsample.pyx kernels are executed on vectors of 0..3 (4) stored entries with ARBITRARY non-negative "
                   "integer counts (unbounded z3 Ints) and the RNG replaced by a nondeterministic stub (n pairwise-distinct unit indices / a "
                   "multinomial draw): without replacement the result is proved equal to the prefix-sum-window count of the drawn indices, hence "
                   "sums to n and is bounded by the original; insufficient vectors are zeroed. Table.subsample (counts, with/without replacement, "
                   "by id, both axes) is run with the stub RNG: retained ids, per-vector sums along the requested axis, bounds, dropped empty "
                   "vectors, by-id min(n,N) with values unchanged, one Generator seeded with exactly the given seed, input unchanged; the generator API (util.generate_subsamples): input unchanged after the first yield, the second yield checked like a direct call.",
    'encoded': {'biom/_subsample.pyx': ['subsample', '_subsample_without_replacement', '_subsample_with_replacement'],
                'biom/table.py': ['subsample', '_get_sparse_data', 'filter', 'copy'], 'biom/_filter.pyx': ['_filter'], 'biom/util.py': ['generate_subsamples']},
    'bounds': {'quick': {'kernel': '2 vectors x <=3 entries, n<=3, counts unbounded', 'table': '2x2 count tables, <=1 explicit zero, n in 1..2 (by id 1..3)'},
               'thorough': {'kernel': 'also 1x4 entries n<=4, 3x2', 'table': '2x2, 2x3, 3x2; n<=3'}},
    'outside': ['uniformity / unbiasedness and seed-determinism of numpy.random.Generator (trusted contract of the stub)',
                'counts >= 2^63 (int64 overflow)', 'larger n / longer vectors'],
    'assumptions': ['RNG stub contract: choice(total,n,replace=False) -> n distinct ints in [0,total); multinomial(n,p) -> non-negative ints summing '
                    'to n, zero where p is zero; shuffle -> any permutation', 'replays script numpy.random.default_rng with the outcome chosen by the solver'],
}
