"""An independent reader of BIOM 2.1 HDF5 stores, written from doc/documentation/format_versions/biom-2.1.rst.

Works on the in-memory h5py model (symbolic runs) and on real h5py files (replays): it only uses
`store.attrs[...]`, `store[path]`, `path in store`, dataset `[:]`, `.shape`, `.dtype`, `.attrs`, group `.keys()`.
"""
import datetime
import numpy as np
from sx.harness import *      # noqa

VOCAB = ["OTU table", "Pathway table", "Function table", "Ortholog table", "Gene table", "Metabolite table", "Taxon table"]
REQ_ATTRS = ['id', 'type', 'format-url', 'format-version', 'generated-by', 'creation-date', 'shape', 'nnz']
REQ_GROUPS = ['observation', 'observation/matrix', 'observation/metadata', 'observation/group-metadata',
              'sample', 'sample/matrix', 'sample/metadata', 'sample/group-metadata']
REQ_DATASETS = ['observation/ids', 'observation/matrix/data', 'observation/matrix/indices', 'observation/matrix/indptr',
                'sample/ids', 'sample/matrix/data', 'sample/matrix/indices', 'sample/matrix/indptr']


def new_store():
    b = B()
    if b.mode == 'sym':
        return b.h5.File()
    import os
    import tempfile
    new_store.n = getattr(new_store, 'n', 0) + 1
    return b.h5.File(os.path.join(tempfile.gettempdir(), f'sx-replay-{os.getpid()}-{new_store.n}.h5'), 'w', driver='core',
                     backing_store=False)


def is_group(x):
    return hasattr(x, 'keys') and not hasattr(x, 'dtype')


def elem_kind(ds):
    """'f8' / 'i4' / 'str' / other: the element type a dataset was created with"""
    b = B()
    if b.mode == 'sym':
        dt = ds.dtype
        if isinstance(dt, type(b.h5.VLEN_STR)):
            return 'str'
        if dt is None:
            arr = ds[:]
            if arr.dtype == object:
                return 'str' if all(isinstance(v, (bytes, str)) for v in arr.reshape(-1)) else 'object'
            return arr.dtype.kind + str(arr.dtype.itemsize)
        if np.dtype(dt).kind in 'SU':
            return 'str'            # fixed-width text is text as well
        return np.dtype(dt).kind + str(np.dtype(dt).itemsize)
    import h5py
    if h5py.check_string_dtype(ds.dtype) is not None or ds.dtype.kind in 'SU':
        return 'str'
    return ds.dtype.kind + str(ds.dtype.itemsize)


def _s(x):
    if isinstance(x, bytes):
        try:
            return x.decode('utf8')
        except UnicodeDecodeError:
            return x.decode('utf8', 'replace')      # text cut inside a character: reported by the caller comparing with the table
    return str(x)


def decode(label, store, **sig):
    """returns dict(obs_ids, samp_ids, csr_dense, csc_dense, nnz, attrs, obs_md, samp_md) or None after reporting"""
    ok = True
    for k in REQ_ATTRS:
        if k not in store.attrs:
            fail(label + ':missing-attribute', k, **sig)
            ok = False
    for g in REQ_GROUPS:
        if g not in store or not is_group(store[g]):
            fail(label + ':missing-group', g, **sig)
            ok = False
    for d in REQ_DATASETS:
        if d not in store or is_group(store[d]):
            fail(label + ':missing-dataset', d, **sig)
            ok = False
    if not ok:
        return None
    at = {k: store.attrs[k] for k in REQ_ATTRS}
    shape = tuple(int(x) for x in np.asarray(at['shape']).reshape(-1))
    if len(shape) != 2:
        fail(label + ':shape-attr', str(at['shape']), **sig)
        return None
    if tuple(int(x) for x in np.asarray(at['format-version']).reshape(-1)) != (2, 1):
        fail(label + ':format-version', str(at['format-version']), **sig)
    if _s(at['format-url']) != 'http://biom-format.org':
        fail(label + ':format-url', str(at['format-url']), **sig)
    if not isinstance(at['id'], (str, bytes)) or not isinstance(at['type'], (str, bytes)) or not isinstance(at['generated-by'], (str, bytes)):
        fail(label + ':string-attribute-type', f"{type(at['id'])} {type(at['type'])} {type(at['generated-by'])}", **sig)
    if _s(at['type']) not in VOCAB + ['']:
        fail(label + ':type-vocabulary', _s(at['type']), **sig)
    try:
        datetime.datetime.fromisoformat(_s(at['creation-date']))
    except ValueError:
        fail(label + ':creation-date', _s(at['creation-date']), **sig)
    nnz = int(at['nnz'])
    N, M = shape
    out = {'attrs': at, 'shape': shape, 'nnz': nnz}
    for axis, n in (('observation', N), ('sample', M)):
        ids = store[axis + '/ids'][:]
        if len(ids) != n:
            fail(label + ':ids-count', f"{axis}: {len(ids)} ids for shape {shape}", **sig)
            return None
        if n and elem_kind(store[axis + '/ids']) != 'str':
            fail(label + ':ids-type', elem_kind(store[axis + '/ids']), **sig)
        out[axis + '_ids'] = [_s(x) for x in ids]
    for axis, nmaj, nmin in (('observation', N, M), ('sample', M, N)):
        g = axis + '/matrix/'
        data, indices, indptr = store[g + 'data'][:], store[g + 'indices'][:], store[g + 'indptr'][:]
        kinds = (elem_kind(store[g + 'data']), elem_kind(store[g + 'indices']), elem_kind(store[g + 'indptr']))
        if kinds != ('f8', 'i4', 'i4'):
            fail(label + ':matrix-element-types', f"{axis}: {kinds}", **sig)
        ip = [int(x) for x in indptr]
        if len(ip) != nmaj + 1 or (ip and (ip[0] != 0 or ip[-1] != nnz)) or any(a > b for a, b in zip(ip, ip[1:])):
            fail(label + ':indptr', f"{axis}: indptr={ip} for {nmaj} vectors, nnz={nnz}", **sig)
            return None
        if len(data) != nnz or len(indices) != nnz:
            fail(label + ':data-length', f"{axis}: {len(data)} data / {len(indices)} indices for nnz={nnz}", **sig)
            return None
        if any(not 0 <= int(x) < nmin for x in indices):
            fail(label + ':index-range', f"{axis}: {list(indices)} for minor size {nmin}", **sig)
            return None
        for k in range(nmaj):
            seg = [int(x) for x in indices[ip[k]:ip[k + 1]]]
            if len(set(seg)) != len(seg):
                fail(label + ':duplicate-index', f"{axis} vector {k}: {seg}", **sig)
        prove(label + ':no-stored-zeros', and_(*[not_(eq(v, 0)) if not is_sym(v) else (v != 0) for v in data]), axis=axis, **sig)
        dense = [[0.0] * M for _ in range(N)]
        for k in range(nmaj):
            for p in range(ip[k], ip[k + 1]):
                i, j = (k, int(indices[p])) if axis == 'observation' else (int(indices[p]), k)
                v = data[p]
                dense[i][j] = dense[i][j] + (v if is_sym(v) else float(v))
        out['csr_dense' if axis == 'observation' else 'csc_dense'] = dense
    for axis, n in (('observation', N), ('sample', M)):
        md = [dict() for _ in range(n)]
        for cat in store[axis + '/metadata'].keys():
            ds = store[axis + '/metadata/' + cat]
            if is_group(ds):
                fail(label + ':metadata-category-not-a-dataset', f"{axis}/metadata/{cat} is a group", **sig)
                continue
            arr = ds[:]
            if len(arr) != n:
                fail(label + ':metadata-entry-count', f"{axis}/{cat}: {len(arr)} entries for {n} ids", **sig)
                continue
            for k in range(n):
                md[k][cat.replace('@@SLASH@@', '/')] = arr[k]
        out[axis + '_md'] = md
        gmd = {}
        for cat in store[axis + '/group-metadata'].keys():
            ds = store[axis + '/group-metadata/' + cat]
            if 'data_type' not in ds.attrs:
                fail(label + ':group-metadata-data_type', f"{axis}/{cat}", **sig)
            gmd[cat] = (_s(ds.attrs.get('data_type', '')) if hasattr(ds.attrs, 'get') else '', _s(ds[0]))
        out[axis + '_gmd'] = gmd
    return out
