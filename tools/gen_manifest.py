#!/usr/bin/env python3
"""Regenerate /verif/MANIFEST.json from the check modules that exist (checks/cXX.py with a MANIFEST dict or defaults)."""
import importlib, json, os, sys
ROOT = os.path.dirname(os.path.dirname(os.path.abspath(__file__)))
sys.path.insert(0, ROOT)
props = [json.loads(l) for l in open(os.path.join(ROOT, 'properties.jsonl'))]
NA = json.load(open(os.path.join(ROOT, 'not_applicable.json'))) if os.path.exists(os.path.join(ROOT, 'not_applicable.json')) else {}
checks, na = [], []
for p in props:
    pid = p['id']
    path = os.path.join(ROOT, 'checks', pid.lower() + '.py')
    if not os.path.exists(path) or pid in NA:
        na.append({'property_id': pid, 'reason': NA.get(pid, 'check not built yet in this round (planned, see DESIGN.md section 6); not claimed')})
        continue
    src = open(path).read()
    ns = {}
    # META is a literal dict in every check module; read it without importing the harness machinery
    import ast
    tree = ast.parse(src)
    meta = {}
    for node in tree.body:
        if isinstance(node, ast.Assign) and getattr(node.targets[0], 'id', '') in ('META', 'MANIFEST'):
            try:
                meta[node.targets[0].id] = ast.literal_eval(node.value)
            except Exception as e:
                raise SystemExit(f"{path}: {node.targets[0].id} is not a literal: {e}")
    M = meta.get('MANIFEST', {})
    META = meta.get('META', {})
    checks.append({
        'property_id': pid,
        'quick_cmd': f'bin/check {pid} --tier quick',
        'thorough_cmd': f'bin/check {pid} --tier thorough',
        'evidence_file': f'/verif/evidence/{pid}.json',
        'replay_cmd_template': '.venv/bin/python {path}',
        'engine': M.get('engine', 'sx'),
        'level_claimed': {
            'category': 'other',
            'text': M.get('level', 'Bounded symbolic execution of the real source: every control path within the stated size bounds is '
                          'explored and on each path z3 decides the postcondition for all values of the symbolic inputs; '
                          'counterexamples are replayed on the unmodified library before being reported. Not a proof: nothing is claimed '
                          'outside the bounds listed in the evidence file.'),
            'design_ref': M.get('design_ref', 'DESIGN.md section 6 / ' + pid)},
        'level_note': M.get('note', 'Trusted base: z3; CPython; real numpy; executable models of scipy.sparse / h5py / numpy Generator validated '
                            'differentially against the real libraries at the start of every run; .pyx->Python translation validated against the compiled extension. ') + ' Outside the claim: ' + '; '.join(META.get('outside', [])),
        'technique': M.get('technique', 'symbolic execution of the real Python/Cython source with z3 (SX engine), per-path SMT verdict, bounded'),
    })
man = {
    'version': 1,
    'setup_cmd': 'sh bin/setup.sh',
    'hooks': {'guard': 'BIOM_FORMAT_VERIF', 'enable': 'no source hooks are needed: the checks load /repo/biom through an import hook (sx/env.py) that instruments the AST at load time',
              'baseline_off_cmd': 'cd /repo && /venv/bin/python -m pytest -ra -q -p no:cacheprovider --timeout=900 --continue-on-collection-errors',
              'source_commits': [], 'add_only': True},
    'engines': [
        {'name': 'sx', 'path': 'sx/', 'serves_properties': [c['property_id'] for c in checks if 'sx' in c['engine']],
         'kind_free_text': 'purpose-built decision-replay symbolic executor over z3 running the real biom source with library models'},
        {'name': 'crosshair', 'path': 'harness/', 'serves_properties': [c['property_id'] for c in checks if 'crosshair' in c['engine']],
         'kind_free_text': 'CrossHair (crosshair-tool 0.0.110) contracts over pure-Python text/dict code'},
        {'name': 'q', 'path': 'q/', 'serves_properties': [c['property_id'] for c in checks if 'q' in c['engine'].split('+')],
         'kind_free_text': 'direct z3 queries (floating-point formatting, string language inclusion)'}],
    'checks': checks,
    'not_applicable': na,
    'notes': 'All checks: `bin/check <id> --tier quick|thorough` (cwd /verif). Exit 0 held / 1 VIOLATION / 2 harness error (no verdict). '
             'Known genuine defects are listed in known_findings.json and printed as KNOWN-FINDING lines.',
}
json.dump(man, open(os.path.join(ROOT, 'MANIFEST.json'), 'w'), indent=1)
print(len(checks), 'checks;', len(na), 'not applicable')
