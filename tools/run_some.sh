#!/bin/sh
# usage: tools/run_some.sh <tier> <Cxx> [<Cxx> ...]  -- like run_all.sh for the listed checks, in the given order
TIER=$1; shift
cd "$(dirname "$0")/.."
for P in "$@"; do
  S=$(date +%s)
  VERIF_SEED=${VERIF_SEED:-0} sh bin/check $P --tier $TIER > /tmp/run_$P.log 2>&1; RC=$?
  E=$(date +%s)
  echo "$P tier=$TIER rc=$RC wall=$((E-S))s $(grep -c '^VIOLATION' /tmp/run_$P.log) violations, $(grep -c '^KNOWN-FINDING' /tmp/run_$P.log) known, $(grep -c '^HARNESS-ERROR' /tmp/run_$P.log) harness errors | $(grep -m1 '^\[' /tmp/run_$P.log | cut -c1-150)"
done
