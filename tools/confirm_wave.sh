#!/bin/sh
# usage: tools/confirm_wave.sh <incoming_dir> <Cxx> <prefix>   confirm wave-N seeded changes of one property (fresh scratch worktree of /repo HEAD)
IN=$1/$2; P=$2; PRE=$3
WT=/tmp/cw/$P
mkdir -p /tmp/cw
git -C /repo worktree remove --force $WT 2>/dev/null; rm -rf $WT
git -C /repo worktree add -q --detach $WT HEAD || exit 1
cp /repo/biom/*.so $WT/biom/
for m in m1 m2 m3; do
  [ -f $IN/$m/patch.diff ] || continue
  cd $WT && git checkout -q -- . && git apply $IN/$m/patch.diff 2>/dev/null || { echo "$P $m APPLY-FAILED"; continue; }
  T=$(PYTHONPATH=$WT /venv/bin/python -m pytest -q -p no:cacheprovider biom/tests 2>&1 | tail -1)
  sed "s|/tmp/wt[234567]/$P|$WT|g" $IN/$m/demo.py > /tmp/cw/demo_$P.py
  (cd $WT && PYTHONPATH=$WT timeout 300 /venv/bin/python /tmp/cw/demo_$P.py >/dev/null 2>&1); W=$?
  cd $WT && git checkout -q -- .
  (cd $WT && PYTHONPATH=$WT timeout 300 /venv/bin/python /tmp/cw/demo_$P.py >/dev/null 2>&1); WO=$?
  echo "$P $m tests=[$T] demo_with=$W demo_without=$WO"
  if [ "$W" != "0" ] && [ "$WO" = "0" ] && echo "$T" | grep -q "377 passed"; then
    D=/verif/seeded/$P-$PRE$m; rm -rf $D; mkdir -p $D; cp $IN/$m/patch.diff $IN/$m/notes.md $D/ 2>/dev/null; cp /tmp/cw/demo_$P.py $D/demo.py
    /venv/bin/python - <<PY
import json
notes=open('$IN/$m/notes.md').read() if __import__('os').path.exists('$IN/$m/notes.md') else ''
json.dump({'id':'$P-$PRE$m','property':'$P','wave':int("$PRE"[1:2]),'base':'/repo HEAD with the fix: commits',
 'origin':'independent sub-agent given only the property text and its own scratch worktree of /repo (nothing from /verif)',
 'needs_to_manifest':notes[:1500],
 'confirmed_by_me':{'how':'tools/confirm_wave.sh in a fresh scratch worktree: git apply; full pytest; demo with change; git checkout; demo without','result':'tests=[$T] demo_with=$W demo_without=$WO'}},
 open('$D/meta.json','w'),indent=1)
PY
  fi
done
cd /; git -C /repo worktree remove --force $WT; rm -rf $WT
