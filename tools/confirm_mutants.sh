#!/bin/sh
# usage: tools/confirm_mutants.sh Cxx   -- confirm each seeded change of one property in a scratch worktree (outside /repo and /verif)
# For every m<k>: tests with the change (expect baseline: 372 pass / 5 fail), demo with change (expect !=0), demo without (expect 0).
P=$1
WT=/tmp/wt/$P
IN=/verif/seeded/_incoming/$P
OUT=/verif/seeded/_incoming/$P/confirm.txt
mkdir -p /tmp/wt
git -C /repo worktree remove --force $WT 2>/dev/null
rm -rf $WT
git -C /repo worktree add -q --detach $WT HEAD || exit 1
cp /repo/biom/*.so $WT/biom/
: > $OUT
for m in m1 m2 m3; do
  [ -f $IN/$m/patch.diff ] || continue
  cd $WT && git checkout -q -- . && git apply $IN/$m/patch.diff 2>>$OUT || { echo "$P $m APPLY-FAILED" >> $OUT; continue; }
  T=$(PYTHONPATH=$WT /venv/bin/python -m pytest -q -p no:cacheprovider -x --deselect biom/tests/test_cli/test_subset_table.py::TestSubsetTable::test_subset_observations_hdf5 --deselect biom/tests/test_cli/test_subset_table.py::TestSubsetTable::test_subset_samples_hdf5 --deselect biom/tests/test_table.py::TableTests::test_from_hdf5_observation_subset --deselect biom/tests/test_table.py::TableTests::test_from_hdf5_sample_subset --deselect biom/tests/test_table.py::TableTests::test_from_hdf5_subset_error biom/tests 2>&1 | tail -1)
  (cd $WT && PYTHONPATH=$WT timeout 300 /venv/bin/python $IN/$m/demo.py >/dev/null 2>&1); W=$?
  cd $WT && git checkout -q -- .
  (cd $WT && PYTHONPATH=$WT timeout 300 /venv/bin/python $IN/$m/demo.py >/dev/null 2>&1); WO=$?
  echo "$P $m tests=[$T] demo_with=$W demo_without=$WO files=$(grep -c '^diff' $IN/$m/patch.diff)" >> $OUT
done
cd /; git -C /repo worktree remove --force $WT; rm -rf $WT
cat $OUT
