#!/bin/sh
# usage: tools/mutant_matrix.sh [tier] [ids...]  -- run every seeded change against its property's check in a scratch worktree
# (never touches /repo's working tree or /verif's evidence); writes /verif/seeded/<id>/result.txt.
# The checks are taken from the tree this script lives in (so `vp run -- tools/mutant_matrix.sh ...` uses a committed snapshot
# that later edits of /verif cannot disturb); patches and results live in /verif/seeded.
TIER=${1:-quick}; shift
IDS="$@"
HOME_=$(cd "$(dirname "$0")/.." && pwd)
[ -z "$IDS" ] && IDS=$(ls /verif/seeded | grep '^C')
SCR=/tmp/mm$$; mkdir -p $SCR
for id in $IDS; do
  P=$(echo $id | cut -d- -f1)
  WT=$SCR/$id
  git -C /repo worktree remove --force $WT 2>/dev/null; rm -rf $WT
  git -C /repo worktree add -q --detach $WT HEAD || continue
  cp /repo/biom/*.so $WT/biom/
  PATCH=/verif/seeded/$id/patch.diff; [ -f /verif/seeded/$id/patch.rebased.diff ] && PATCH=/verif/seeded/$id/patch.rebased.diff
  (cd $WT && (git apply $PATCH 2>/dev/null || git apply -3 $PATCH >/dev/null 2>&1)) || { echo "$id APPLY-FAILED" > /verif/seeded/$id/result.txt; git -C /repo worktree remove --force $WT; continue; }
  mkdir -p $SCR/out-$id
  (cd $HOME_ && VERIF_REPO=$WT VERIF_OUT=$SCR/out-$id sh bin/check $P --tier $TIER > $SCR/out-$id/log 2>&1); RC=$?
  NV=$(grep -c '^VIOLATION' $SCR/out-$id/log)
  echo "$id check=$P tier=$TIER rc=$RC violation_lines=$NV first=$(grep -m1 '^VIOLATION' $SCR/out-$id/log | sed 's/.*replays.//')" > /verif/seeded/$id/result.txt
  [ "$RC" = "2" ] && grep -m3 -A3 'HARNESS-ERROR\|Traceback\|Mismatch' $SCR/out-$id/log | cut -c1-300 >> /verif/seeded/$id/result.txt
  cat /verif/seeded/$id/result.txt
  git -C /repo worktree remove --force $WT; rm -rf $WT $SCR/out-$id
done
rmdir $SCR 2>/dev/null
