#!/bin/sh
# usage: tools/mutant_matrix.sh [tier] [ids...]  -- run every seeded change against its property's check in a scratch worktree
# (never touches /repo's working tree or /verif's evidence); writes seeded/<id>/result.txt
TIER=${1:-quick}; shift
IDS="$@"
[ -z "$IDS" ] && IDS=$(ls /verif/seeded | grep '^C')
mkdir -p /tmp/mm
for id in $IDS; do
  P=$(echo $id | cut -d- -f1)
  WT=/tmp/mm/$id
  git -C /repo worktree remove --force $WT 2>/dev/null; rm -rf $WT
  git -C /repo worktree add -q --detach $WT HEAD || continue
  cp /repo/biom/*.so $WT/biom/
  PATCH=/verif/seeded/$id/patch.diff; [ -f /verif/seeded/$id/patch.rebased.diff ] && PATCH=/verif/seeded/$id/patch.rebased.diff
  (cd $WT && (git apply $PATCH 2>/dev/null || git apply -3 $PATCH >/dev/null 2>&1)) || { echo "$id APPLY-FAILED" > /verif/seeded/$id/result.txt; git -C /repo worktree remove --force $WT; continue; }
  mkdir -p /tmp/mm/out-$id
  (cd /verif && VERIF_REPO=$WT VERIF_OUT=/tmp/mm/out-$id bin/check $P --tier $TIER > /tmp/mm/out-$id/log 2>&1); RC=$?
  NV=$(grep -c '^VIOLATION' /tmp/mm/out-$id/log)
  echo "$id check=$P tier=$TIER rc=$RC violation_lines=$NV first=$(grep -m1 '^VIOLATION' /tmp/mm/out-$id/log | sed 's/.*replays.//')" > /verif/seeded/$id/result.txt
  cat /verif/seeded/$id/result.txt
  git -C /repo worktree remove --force $WT; rm -rf $WT /tmp/mm/out-$id
done
