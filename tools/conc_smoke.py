import sys; sys.path.insert(0,'/verif')
from sx import core, env, harness
b = env.load('conc'); harness.set_backend(b)
import importlib
for modname, hname, args in [('checks.c19','dataframe',(2,3,True)),('checks.c19','dataframe',(2,3,False)),('checks.c19','report',(2,3,False,True)),('checks.c19','cli_ids_head',(2,2)),
                             ('checks.c03','roundtrip',(2,2,'plain',True)),('checks.c02','json',(2,2,'nasty','mixed','concrete',True)),('checks.c01','roundtrip',(2,2,'nonascii','taxonomy',0)),
                             ('checks.c13','cli',(2,2,'observation','relative')),('checks.c18','cli_add',('both',)),('checks.c15','written_hdf5_is_valid',(2,2,'OTU table')),('checks.c12','table_by_id',(2,2,'sample',1)),
                             ('checks.c20','reaction',('empty','print','filter')),('checks.c14','hdf5',(2,3,'sample',True)),('checks.c04','empty_axes',('Nx0',))]:
    mod = importlib.import_module(modname)
    if hasattr(mod,'conc_setup'): mod.conc_setup(b)
    # all-ones choices (store every cell), generous supply
    st, fails = core.replay(mod.HARNESSES[hname], args, [1]*60, {})
    print(modname, hname, args, st, fails[:2])
