#!/bin/sh
# usage: tools/run_all.sh [quick|thorough]  -- run every registered check on /repo as it is, sequentially; evidence is (re)written
TIER=${1:-quick}
cd "$(dirname "$0")/.."
for i in 01 02 03 04 05 06 07 08 09 10 11 12 13 14 15 16 17 18 19 20; do
  S=$(date +%s)
  VERIF_SEED=${VERIF_SEED:-0} bin/check C$i --tier $TIER > /tmp/run_C$i.log 2>&1; RC=$?
  E=$(date +%s)
  echo "C$i tier=$TIER rc=$RC wall=$((E-S))s $(grep -c '^VIOLATION' /tmp/run_C$i.log) violations, $(grep -c '^KNOWN-FINDING' /tmp/run_C$i.log) known, $(grep -c '^HARNESS-ERROR' /tmp/run_C$i.log) harness errors | $(grep -m1 '^\[' /tmp/run_C$i.log | cut -c1-150)"
done
