#!/usr/bin/env python3
"""Print the prompt handed to an independent sub-agent asked to seed a property-breaking change.
The agent gets ONLY the property text and a scratch worktree -- nothing from /verif."""
import json, sys
pid = sys.argv[1]
for l in open('/verif/properties.jsonl'):
    p = json.loads(l)
    if p['id'] == pid: break
wt = f'/tmp/wt7/{pid}'; out = f'/tmp/wt7/out/{pid}'
print(f"""You are helping to evaluate a verification effort for the open-source Python library biocore/biom-format
(BIOM biological count-matrix format: sparse Table class; JSON, HDF5, TSV readers/writers; validator; CLI).

You have your own scratch git worktree of the library at {wt} (work ONLY there and write deliverables to {out};
do NOT read or touch /repo or /verif). Python is /venv/bin/python (3.12; numpy 2.x, scipy, h5py, pandas, click installed).
ALWAYS run with the worktree on the path, e.g.
    cd {wt} && PYTHONPATH={wt} /venv/bin/python demo.py
and make sure `import biom; biom.__file__` starts with {wt}.
The existing test suite:  cd {wt} && PYTHONPATH={wt} /venv/bin/python -m pytest -q -p no:cacheprovider biom/tests
At baseline all 377 tests pass (7 skipped).
The three Cython extensions (biom/_filter, _transform, _subsample) are prebuilt .so files and CANNOT be rebuilt here (no Cython):
change only .py files.

THE PROPERTY (of the library's behaviour) under study:

  id: {p['id']} -- {p['title']}
  statement: {p['statement']}
  quantified over: {p['quantifier']['text']}
  code it is anchored in: {', '.join(p['anchors']['files'])}; mechanisms: {'; '.join(m['name']+' ('+m['where']+')' for m in p['anchors']['mechanism'])}

YOUR TASK: produce ONE realistic source change ("seeded bugs") to the library, each of which
  (a) BREAKS the property above (some clause of it) for some inputs / histories / configurations,
  (b) still imports fine and PASSES THE WHOLE EXISTING TEST SUITE (all 377 still pass) -- verify this by running it,
  (c) is SUBTLE: it must need something specific to manifest -- an unusual input (e.g. particular sparsity layout, unsorted
      indices, explicit stored zeros, a particular ID order/length, a specific value range, a specific flag combination), a multi-step
      sequence of operations, or two cooperating sites that each look fine alone. NOT something ordinary use would expose at once,
      and not a crash on every call. If the property is anchored in more than one file, make at least one of the two changes OUTSIDE biom/table.py (biom/parse.py, biom/util.py, biom/err.py, biom/cli/*.py) or in a small helper function of table.py rather than in the big public method. Prefer changes in rarely exercised branches, in the interplay between two functions (one site relies on a side effect or invariant of another), in command-line helpers, in error paths, or ones that only show after a particular earlier operation. Think of plausible refactoring slips, off-by-one, wrong axis, aliasing instead of copy,
      stale cache/index, wrong default, dropped edge case, swapped arguments in a rarely used branch, etc.
  (d) looks like something a developer could plausibly commit (small diff, typically 1-10 lines).
Make the two changes different in mechanism and touching different functions/clauses of the property. Additional requirements for this round:
  * BOTH changes must produce a SILENTLY WRONG RESULT (wrong value, wrong id, wrong order, wrong metadata, wrong text, wrong accept/reject decision,
    a modified input) -- not an exception or crash, those are too easy to notice;
  * (if you produce one change only, treat it as "change 2" below, and prefer a site outside the big public methods)
  * change 1 must NOT be in biom/table.py if the property is anchored in any other file (use biom/parse.py, biom/util.py, biom/err.py, biom/__init__.py or
    biom/cli/*.py); if it is anchored only in biom/table.py, put it in a helper function or nested function of at most ~15 lines;
  * change 2 may be anywhere, but must need a COMBINATION of at least two circumstances to show (e.g. a flag AND a data shape; a prior operation AND an
    argument form; metadata present on one axis AND absent on the other; an id ordering AND a table size);
  * do not reuse the well-worn ideas "explicitly stored zeros", "unsorted sparse indices", "replace a copy by an alias", "values below 1e-8 treated as zero".
  * ALSO do not reuse any of these ideas, which earlier rounds already produced (find something NEW): sorting kept indices as text instead of numbers;
    a hand-written "is this a number" test that misses exponent notation; a "nothing to do" shortcut in filter when the id collection is as long as the axis;
    errstate restoring only the kinds it named; `if md` / `if not val` / `x if x else y` truthiness slips on metadata; making the 'empty' error test fire on
    all-zero tables; patching the id->index lookup incrementally or reusing the id buffer in update_ids; pre-filtering in generate_subsamples; removing the
    eliminate_zeros side effect of `nnz`; natural sort not recognising decimals; stamping format_version on loaded tables; float32 temporaries; biom.concat
    wrapper dropping / popping / identity-filtering operands; truncating requested ids to the stored id dtype; `md[key]` on defaultdict metadata in a read path;
    del_metadata looking only at the first id or wiping the other axis; swapped shape in streamed JSON; strptime instead of fromisoformat; deciding gzip by file
    name; closing the caller's handle in load_table; stripping whitespace / dropping empty levels in hierarchical lists; sort_order applying the inverse
    permutation to metadata or rows; partition dropping falsy labels or mapping unlisted ids to themselves; collapse dividing by the number of distinct groups;
    remove_empty by sum; transform / norm kernels working on the receiver's arrays; rank via argsort; normalize-table passing --axis positionally or checking
    totals on the wrong axis; validator `nnz <= 0`, set.update on an id, bounds clamped at 0; element type chosen from the first stored value; `default=str` in
    dumps; a dedented `have_written`; merge fast path skipping the index remap / taken when the other operand has observation metadata only; parse_uc splitting
    on any whitespace; float_format in export-metadata; qualitative counts with `> 0`; summarize-table counts taken before the --observations transpose.

You have about 10 minutes of wall time in total, so pick an idea quickly and do not over-explore. Deliver in {out}/m1/ :
  patch.diff  -- `git diff` output against the worktree HEAD (must apply with `git apply` to a clean checkout),
  demo.py     -- a small self-contained program that exits 0 on the UNCHANGED library and exits non-zero (assertion failure)
                 WITH the change applied; it should print what it observed. It must exercise the public API only.
  notes.md    -- which clause of the property breaks, what is needed for the bug to manifest, and the exact commands you ran
                 with their results (test-suite counts with the change; demo exit code with and without the change).
Procedure per change: edit files in the worktree; run the full test suite; run the demo (must fail); `git diff > patch.diff`;
`git checkout -- .` ; run the demo again (must pass). Always leave the worktree clean (`git status` shows no modifications) before
starting the next change and when you finish. Do not commit anything. Do not create files inside the worktree other than
temporary ones you delete again.
Finally reply with a 10-line summary: for each change, the file/function touched, what breaks and the trigger.""")
