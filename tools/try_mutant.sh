#!/bin/sh
# usage: tools/try_mutant.sh <patch.diff> <Cxx> [tier]  -- apply a seeded change to /repo, run the check, undo it straight afterwards
PATCH=$(realpath $1); P=$2; TIER=${3:-quick}
git -C /repo diff --quiet || { echo "/repo not clean"; exit 9; }
R=$(dirname $PATCH)/patch.rebased.diff
[ -f $R ] && PATCH=$R
git -C /repo apply $PATCH 2>/dev/null || { git -C /repo apply -3 $PATCH >/dev/null 2>&1 && git -C /repo reset -q; } || { echo "patch does not apply"; git -C /repo reset -q --hard HEAD; exit 9; }
cd /verif && bin/check $P --tier $TIER > /tmp/try_$P.log 2>&1; RC=$?
git -C /repo checkout -- .
echo "rc=$RC $(grep -c '^VIOLATION' /tmp/try_$P.log) violation line(s)"; grep -E '^(VIOLATION|KNOWN|HARNESS|\[)' /tmp/try_$P.log | cut -c1-400 | head -12
git -C /verif checkout -- evidence/$P.json 2>/dev/null
exit $RC
