"""Harness utilities: arbitrary valid representation states, the abstract table model (ATM) and comparisons.

A harness is a plain function using the module-level API of `sx.core` (`choice/var/prove/...`) and the
backend `B` from `sx.env` -- the same function runs symbolically (models bound, values = z3 terms) and
concretely (real library, values = the solver's numbers) for replay.
"""
import itertools
from . import core
from .core import (var, choice, pick, flag, assume, prove, fail, note, eq, and_, or_, not_, ite, ssum, is_sym,
                   Abort, Unsupported)
from .models.sparse import dense_terms

_B = None


def B():
    """the active backend (set by the runner / replayer before the harness runs)"""
    return _B


def set_backend(b):
    global _B
    _B = b


# awkward on purpose: different lengths, natural-vs-lexicographic order traps, punctuation, non-ASCII
OBS_IDS = ['b10', 'b9', 'a/x y', 'ü"q']
SAMP_IDS = ['S2', 'S10', 'z', 'é-1']


def ids_for(n, axis):
    base = OBS_IDS if axis == 'observation' else SAMP_IDS
    return list(base[:n])


# ------------------------------------------------------------------------------------------------ matrices
def sym_matrix(nr, nc, prefix='v', kind='real', zeros=0, lo=None, dense_only=False):
    """choose a sparsity pattern: per cell absent / stored non-zero symbolic / (up to `zeros`) stored literal 0.
    returns cells[i][j] in {None, term, 0.0-as-explicit-zero marker 'Z'} and the dense term matrix"""
    cells = [[None] * nc for _ in range(nr)]
    dense = [[0.0] * nc for _ in range(nr)]
    zleft = zeros
    for i in range(nr):
        for j in range(nc):
            opts = 2 + (1 if zleft > 0 else 0)
            c = 1 if dense_only else choice(opts, f"cell{i}{j}")
            if c == 1:
                v = var(f"{prefix}_{i}_{j}", kind, nonzero=True, lo=lo)
                cells[i][j] = v
                dense[i][j] = v
            elif c == 2:
                cells[i][j] = 'Z'
                zleft -= 1
    return cells, dense


def build_csr(cells, unsorted=True):
    """CSR arrays for `cells`; every order of the stored entries inside a row is explored when `unsorted`"""
    nr = len(cells)
    nc = len(cells[0]) if nr else 0
    data, indices, indptr = [], [], [0]
    was_unsorted = False
    for i in range(nr):
        cols = [j for j in range(nc) if cells[i][j] is not None]
        if unsorted and len(cols) > 1:
            perms = list(itertools.permutations(cols))
            cols = list(perms[choice(len(perms), f"order{i}")])
            if cols != sorted(cols):
                was_unsorted = True
        for j in cols:
            data.append(0.0 if isinstance(cells[i][j], str) else cells[i][j])
            indices.append(j)
        indptr.append(len(data))
    return data, indices, indptr, was_unsorted


HISTORIES = ('none', 'sort_order:sample', 'sort_order:observation', 'copy', 'filter-all:sample', 'transpose-twice', 'read-accessors',
             'relabel-rotate')


def apply_history(t, atm, h):
    """a prior operation history ending in known content: returns the (possibly new) table and its ATM"""
    if h == 'none':
        return t, atm
    if h.startswith('sort_order:'):
        ax = h.split(':')[1]
        n = len(atm.ids(ax))
        perm = list(range(n))[::-1] if n < 3 else [1, 2, 0] + list(range(3, n))
        t2 = t.sort_order([atm.ids(ax)[k] for k in perm], axis=ax)
        a2 = atm.select(ax, perm)
    elif h == 'copy':
        t2, a2 = t.copy(), atm.copy()
    elif h.startswith('filter-all:'):
        ax = h.split(':')[1]
        t2 = t.filter(list(atm.ids(ax)), axis=ax, inplace=True)
        a2 = atm.copy()
    elif h == 'transpose-twice':
        t2 = t.transpose().transpose()
        a2 = atm.copy()
        a2.type = None          # transpose does not carry the type over
    elif h == 'relabel-rotate':
        # in-place renaming on both axes whose new names are a rotation of the old ones: same id set, every position changes its name
        a2 = atm.copy()
        for ax in ('observation', 'sample'):
            ids = list(atm.ids(ax))
            new = ids[1:] + ids[:1]
            t.update_ids(dict(zip(ids, new)), axis=ax, inplace=True)
            if ax == 'observation':
                a2.obs_ids = new
            else:
                a2.samp_ids = new
        t2 = t
    elif h == 'read-accessors':
        t.nnz
        list(t.iter(axis='sample'))
        t.sum('whole')
        t2, a2 = t, atm.copy()
    else:
        raise ValueError(h)
    a2.info = dict(atm.info, history=h)
    return t2, a2


def make_table(nr, nc, prefix='v', kind='real', zeros=0, unsorted=True, layouts=('csr', 'csc'), md='none',
               lo=None, dense_only=False, obs_ids=None, samp_ids=None, type_=None, histories=None, late_zero=False, **kw):
    """an arbitrary valid representation state of an nr x nc table, through the public constructor.
    Returns (table, atm) -- atm is the abstract description the oracle works on."""
    b = B()
    cells, dense = sym_matrix(nr, nc, prefix, kind, zeros, lo, dense_only)
    data, indices, indptr, was_unsorted = build_csr(cells, unsorted)
    m = b.csr((_arr(data), indices, indptr), shape=(nr, nc))
    oids = list(obs_ids) if obs_ids is not None else ids_for(nr, 'observation')
    sids = list(samp_ids) if samp_ids is not None else ids_for(nc, 'sample')
    omd, smd = metadata_menu(md, oids, sids)
    t = b.Table(m, list(oids), list(sids), _cp(omd), _cp(smd), type=type_, **kw)
    layout = layouts[choice(len(layouts), 'layout')] if len(layouts) > 1 else layouts[0]
    if layout == 'csc':
        t._data = t._data.tocsc()       # what any sample-axis accessor does (Table._get_col)

    if late_zero:
        # a stored entry overwritten with 0 AFTER construction, in place: the state Table.subsample leaves behind
        # (its kernel writes zeros into the data array of the table's own matrix)
        stored = [k for k in range(len(t._data.data))]
        pick_ = choice(len(stored) + 1, 'late-zero') - 1
        if pick_ >= 0:
            m_ = t._data
            maj = next(q for q in range(len(m_.indptr) - 1) if int(m_.indptr[q]) <= pick_ < int(m_.indptr[q + 1]))
            mino = int(m_.indices[pick_])
            i_, j_ = (maj, mino) if m_.format == 'csr' else (mino, maj)
            m_.data[pick_] = 0.0
            dense[i_][j_] = 0.0
            cells[i_][j_] = 'Z'

    def twin():
        """an independent table in the very same representation state (fresh arrays, same terms)"""
        m2 = b.csr((_arr(data), list(indices), list(indptr)), shape=(nr, nc))
        t2 = b.Table(m2, list(oids), list(sids), _cp(omd), _cp(smd), type=type_, **kw)
        if layout == 'csc':
            t2._data = t2._data.tocsc()
        return t2
    has_zero = any(c == 'Z' for row in cells for c in row)
    note('state', {'shape': [nr, nc], 'layout': layout, 'unsorted': was_unsorted, 'explicit_zero': has_zero,
                   'pattern': [''.join('.' if c is None else ('0' if isinstance(c, str) else 'x') for c in row)
                               for row in cells], 'md': md})
    atm = ATM(oids, sids, dense, omd, smd, type_)
    atm.info = {'layout': layout, 'unsorted': was_unsorted, 'explicit_zero': has_zero, 'history': 'none'}
    atm.twin = twin
    if histories:
        h = histories[choice(len(histories), 'history')]
        atm0 = atm
        t, atm = apply_history(t, atm, h)
        atm.twin = lambda: apply_history(twin(), atm0, h)[0]
        core.CTX.notes['state']['history'] = h
        atm.info['layout'] = t._data.format
    return t, atm


def _arr(data):
    b = B()
    if b.mode == 'sym':
        import numpy as np
        out = np.empty(len(data), dtype=object)
        for i, v in enumerate(data):
            out[i] = v
        return out
    import numpy as np
    return np.array([float(v) for v in data], dtype=float)


def _cp(md):
    if md is None:
        return None
    return [None if m is None else dict(m) for m in md]


def metadata_menu(kind, oids, sids):
    if kind == 'none':
        return None, None
    if kind == 'both':
        return ([{'taxonomy': ['k__' + str(i), 's__' + o], 'n': i} for i, o in enumerate(oids)],
                [{'env': 'e' + s, 'depth': float(i)} for i, s in enumerate(sids)])
    if kind == 'falsy':     # real metadata whose every value is falsy (0, False, '', 0.0): still one mapping per id
        return ([{'n': 0, 'flag': False, 'note': ''} for o in oids], [{'depth': 0.0, 'ok': False} for s in sids])
    if kind == 'obs':
        return [{'taxonomy': ['k__' + str(i), 's__' + o]} for i, o in enumerate(oids)], None
    if kind == 'samp':
        return None, [{'env': 'e' + s} for s in sids]
    raise ValueError(kind)


# ------------------------------------------------------------------------------------------------ ATM
class ATM:
    """abstract table: IDs, dense matrix of terms, per-ID metadata (list of dict | None), type"""

    def __init__(self, obs_ids, samp_ids, dense, obs_md=None, samp_md=None, type_=None):
        self.obs_ids = [str(x) for x in obs_ids]
        self.samp_ids = [str(x) for x in samp_ids]
        self.dense = [list(r) for r in dense]
        self.obs_md = _norm_md(obs_md)
        self.samp_md = _norm_md(samp_md)
        self.type = type_
        self.info = {}

    def ids(self, axis):
        return self.obs_ids if axis == 'observation' else self.samp_ids

    def md(self, axis):
        return self.obs_md if axis == 'observation' else self.samp_md

    def vec(self, axis, k):
        return list(self.dense[k]) if axis == 'observation' else [r[k] for r in self.dense]

    def copy(self):
        return ATM(self.obs_ids, self.samp_ids, self.dense, self.obs_md, self.samp_md, self.type)

    def select(self, axis, keep):
        """keep: list of positions, in output order"""
        if axis == 'observation':
            return ATM([self.obs_ids[k] for k in keep], self.samp_ids, [self.dense[k] for k in keep],
                       None if self.obs_md is None else [self.obs_md[k] for k in keep], self.samp_md, self.type)
        return ATM(self.obs_ids, [self.samp_ids[k] for k in keep], [[r[k] for k in keep] for r in self.dense],
                   self.obs_md, None if self.samp_md is None else [self.samp_md[k] for k in keep], self.type)

    def transpose(self):
        nr, nc = len(self.obs_ids), len(self.samp_ids)
        return ATM(self.samp_ids, self.obs_ids, [[self.dense[i][j] for i in range(nr)] for j in range(nc)],
                   self.samp_md, self.obs_md, self.type)

    def total(self):
        return ssum(v for r in self.dense for v in r)


def _norm_md(md):
    if md is None:
        return None
    out = []
    for m in md:
        out.append({} if m is None else {k: _norm_val(v) for k, v in dict(m).items()})
    if all(not m for m in out):
        return None
    return out


def _norm_val(v):
    try:
        import numpy as np
        if isinstance(v, np.generic):
            return v.item()
        if isinstance(v, np.ndarray):
            return v.tolist()
    except ImportError:  # pragma: no cover
        pass
    if isinstance(v, tuple):
        return list(v)
    return v


def observe(t):
    """ATM of a real/model Table, read from its representation (not through the accessors under test)"""
    md_o = t._observation_metadata
    md_s = t._sample_metadata
    return ATM([str(x) for x in t._observation_ids], [str(x) for x in t._sample_ids], dense_terms(t._data),
               None if md_o is None else list(md_o), None if md_s is None else list(md_s), t.type)


def cells_equal(a, b):
    """conjunction claim: two dense term matrices are equal cell by cell"""
    if len(a) != len(b) or any(len(x) != len(y) for x, y in zip(a, b)):
        return False
    return and_(*[eq(x, y) for ra, rb in zip(a, b) for x, y in zip(ra, rb)])


def same_table(label, got, exp, ids=True, values=True, md=True, type_=False, **sig):
    """compare two ATMs; discrete parts fail concretely, values go to the solver"""
    ok = True
    if ids:
        if got.obs_ids != exp.obs_ids:
            fail(label + ':obs-ids', f"{got.obs_ids} != {exp.obs_ids}", **sig)
            ok = False
        if got.samp_ids != exp.samp_ids:
            fail(label + ':samp-ids', f"{got.samp_ids} != {exp.samp_ids}", **sig)
            ok = False
    if md:
        if got.obs_md != exp.obs_md:
            fail(label + ':obs-md', f"{got.obs_md} != {exp.obs_md}", **sig)
            ok = False
        if got.samp_md != exp.samp_md:
            fail(label + ':samp-md', f"{got.samp_md} != {exp.samp_md}", **sig)
            ok = False
    if type_ and got.type != exp.type:
        fail(label + ':type', f"{got.type} != {exp.type}", **sig)
        ok = False
    if values and ok:
        if (len(got.dense), len(got.dense[0]) if got.dense else 0) != (len(exp.dense), len(exp.dense[0]) if exp.dense else 0):
            fail(label + ':shape', f"{len(got.dense)} rows vs {len(exp.dense)}", **sig)
            return False
        r = prove(label + ':values', cells_equal(got.dense, exp.dense), **sig)
        ok = ok and bool(r)
    return ok


def coherent(label, t, **sig):
    """C05 invariant Inv(t) on a Table (model or real)"""
    ok = True
    nr, nc = t._data.shape
    oi, si = [str(x) for x in t._observation_ids], [str(x) for x in t._sample_ids]
    if (nr, nc) != (len(oi), len(si)):
        fail(label + ':shape', f"matrix {nr}x{nc} vs ids {len(oi)}x{len(si)}", **sig)
        ok = False
    if len(set(oi)) != len(oi) or len(set(si)) != len(si):
        fail(label + ':dup-ids', f"{oi} {si}", **sig)
        ok = False
    if dict((str(k), int(v)) for k, v in t._obs_index.items()) != {x: k for k, x in enumerate(oi)}:
        fail(label + ':obs-index', f"{t._obs_index} vs {oi}", **sig)
        ok = False
    if dict((str(k), int(v)) for k, v in t._sample_index.items()) != {x: k for k, x in enumerate(si)}:
        fail(label + ':samp-index', f"{t._sample_index} vs {si}", **sig)
        ok = False
    for name, md, n in (('obs', t._observation_metadata, len(oi)), ('samp', t._sample_metadata, len(si))):
        if md is not None:
            if not isinstance(md, tuple) or len(md) != n or not all(hasattr(m, 'keys') for m in md):
                fail(label + f':{name}-md', f"{md!r} for {n} ids", **sig)
                ok = False
    m = t._data
    if m.format in ('csr', 'csc'):
        nmaj = nr if m.format == 'csr' else nc
        nmin = nc if m.format == 'csr' else nr
        ip = [int(x) for x in m.indptr]
        good = (len(ip) == nmaj + 1 and ip[0] == 0 and all(a <= b for a, b in zip(ip, ip[1:]))
                and ip[-1] <= len(m.indices) and ip[-1] <= len(m.data)
                and all(0 <= int(x) < nmin for x in m.indices[:ip[-1]]))
        if not good:
            fail(label + ':matrix', f"indptr={ip} indices={list(m.indices)} shape={m.shape}", **sig)
            ok = False
    return ok


def raises(fn, *exc):
    """run fn; return the exception instance if it raised (only ordinary Exceptions), else None"""
    try:
        fn()
    except (core.Abort, core.Unsupported):
        raise
    except Exception as e:      # noqa
        if exc and not isinstance(e, exc):
            return e
        return e
    return None


def call(fn):
    """(result, exception) of fn(); only ordinary Exceptions are caught"""
    try:
        return fn(), None
    except (core.Abort, core.Unsupported):
        raise
    except Exception as e:      # noqa
        if isinstance(e, TypeError) and any(k in str(e) for k in ("'SText'", "'SNum'", "'SBool'", 'SText', 'SNum')):
            # a C-level routine (re, struct, ...) was handed a symbolic value: modelling gap, not library behaviour
            raise core.Unsupported(f"symbolic value reached a C boundary: {e}")
        return None, e
