"""Concrete replay of one recorded path against the real, unmodified library.

The harness that produced the counterexample is run again in 'conc' mode: structural choices come from
the recorded trail, symbolic variables take the solver's values, the backend is the real biom from /repo
(real numpy / scipy / h5py / compiled kernels).  Returns 1 iff the same assertion fails again.
"""
import importlib
import sys


def main(case):
    sys.setrecursionlimit(10000)
    from . import env, core, harness
    b = env.load('conc')
    harness.set_backend(b)
    mod = importlib.import_module(case['module'])
    fn = mod.HARNESSES[case['harness']]
    try:
        from .models import rng
        rng.reset()
    except Exception:   # noqa
        pass
    if hasattr(mod, 'conc_setup'):
        mod.conc_setup(b)
    print(f"replay {case['property']} {case['module']}.{case['harness']}{tuple(case['args'])}")
    print(f"  assertion: {case['label']}   signature: {case.get('signature')}")
    print(f"  structural choices: {case.get('path_labels') or case['choices']}")
    print(f"  values: {case['values']}")
    print(f"  state: {case.get('notes', {}).get('state')}")
    try:
        status, failures = core.replay(fn, tuple(case['args']), case['choices'], case['values'])
    except Exception as e:      # noqa
        import traceback
        traceback.print_exc()
        print(f"  replay raised {type(e).__name__}: {e}  (not counted as a reproduction)")
        return 4 if case['label'] != '*' else 0
    print(f"  status: {status}; failed assertions: {failures}")
    print("FAILED-LABELS: " + "|".join(sorted({lab for lab, _ in failures})))
    want = case['label']
    if want == '*' and failures:
        print("  concrete fallback run: assertion(s) failed on the real library")
        return 1
    if any(lab == want for lab, _ in failures):
        print("  REPRODUCED on the real library")
        return 1
    if failures:
        print("  a different assertion failed on the real library:", failures)
        return 5
    print("  not reproduced")
    return 0
