""".pyx -> Python translator for biom's three Cython kernels (DESIGN.md 1.2).

Strips `cimport`, `cdef` type declarations (keeping initialisers) and typed signatures, so that the kernel
source that ships in /repo is what gets executed symbolically.  Integer C types become Python ints
(overflow of int32/int64/Py_ssize_t is outside every claim).  `validate()` runs the translation against
the compiled extension on concrete inputs.
"""
import re

TYPE = r'(?:cnp\.ndarray\[[^\]]*\]|cnp\.\w+|Py_ssize_t|object|int|double|bint)'


def _split_top(s):
    parts, depth, cur = [], 0, ''
    for ch in s:
        if ch in '([{':
            depth += 1
        if ch in ')]}':
            depth -= 1
        if ch == ',' and depth == 0:
            parts.append(cur)
            cur = ''
        else:
            cur += ch
    parts.append(cur)
    return [p.strip() for p in parts if p.strip()]


def _decl_to_assign(indent, rest):
    out = []
    for part in _split_top(rest):
        if '=' in part:
            out.append(f"{indent}{part}")
    return out


def translate(src):
    src = re.sub(r'\\\n\s*', ' ', src)
    lines = src.split('\n')
    out = []
    i = 0
    in_cdef_block = None
    while i < len(lines):
        ln = lines[i]
        stripped = ln.strip()
        indent = ln[:len(ln) - len(ln.lstrip())]
        if in_cdef_block is not None:
            if stripped and len(indent) > in_cdef_block:
                m = re.match(rf'\s*(?:cdef\s+)?{TYPE}\s+(.*)$', ln)
                if not m:
                    raise SyntaxError(f"pyx2py: cannot translate declaration: {ln!r}")
                out += _decl_to_assign(' ' * in_cdef_block, m.group(1))
                out.append('')          # keep line numbering roughly aligned
                i += 1
                continue
            if stripped:
                in_cdef_block = None
        if stripped.startswith('cimport ') or stripped == 'cnp.import_array()':
            out.append('')
            i += 1
            continue
        if stripped == 'cdef:':
            in_cdef_block = len(indent)
            out.append('')
            i += 1
            continue
        if re.match(r'\s*(cdef|def)\s', ln) and '(' in ln and not ln.rstrip().endswith(':'):
            j = i
            buf = ln
            while not buf.rstrip().endswith(':'):
                j += 1
                buf += ' ' + lines[j].strip()
                out.append('')
            ln = buf
            i = j
            stripped = ln.strip()
            indent = ln[:len(ln) - len(ln.lstrip())]
        m = re.match(rf'(\s*)c?def\s+(?:{TYPE}\s+)?(\w+)\s*\((.*)\)\s*:\s*$', ln)
        if m and (ln.lstrip().startswith('cdef') or re.search(rf'\(\s*{TYPE}\s+\w', ln) or re.search(rf',\s*{TYPE}\s+\w', ln)):
            args = [re.sub(rf'^{TYPE}\s+', '', a) for a in _split_top(m.group(3))]
            out.append(f"{m.group(1)}def {m.group(2)}({', '.join(args)}):")
            i += 1
            continue
        m = re.match(rf'(\s*)cdef\s+{TYPE}\s+(.*)$', ln)
        if m:
            a = _decl_to_assign(m.group(1), m.group(2))
            out += a if a else ['']
            i += 1
            continue
        out.append(ln)
        i += 1
    return '\n'.join(out)


if __name__ == '__main__':
    import sys
    print(translate(open(sys.argv[1]).read()))
