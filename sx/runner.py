"""Check driver: run one property's harnesses at one tier, replay counterexamples, write evidence.

usage: python -m sx.runner <Cxx> [--tier quick|thorough] [--only harness] [--workers N]
exit 0: property held on everything explored (KNOWN-FINDING lines for recorded findings)
exit 1: `VIOLATION property=<id> replay=<path>` for a reproduced counterexample not listed in known_findings.json
exit 2: harness error (model validation failed, counterexample did not reproduce, ...): no verdict
"""
import argparse
import fnmatch
import hashlib
import importlib
import json
import multiprocessing as mp
import os
import subprocess
import sys
import time
import traceback

ROOT = os.path.dirname(os.path.dirname(os.path.abspath(__file__)))
REPO = os.environ.get('VERIF_REPO', '/repo')
OUT = os.environ.get('VERIF_OUT', ROOT)        # evidence/ and replays/ go here (mutant sweeps use a scratch directory)


def _sig(harness, f):
    s = f"{harness}:{f['label']}"
    if f.get('sig'):
        s += '{' + ','.join(f"{k}={f['sig'][k]}" for k in sorted(f['sig'])) + '}'
    return s


def _job(arg):
    modname, hname, hargs, opts = arg
    sys.setrecursionlimit(10000)
    try:
        from . import env, core, harness
        b = env.load('sym')
        harness.set_backend(b)
        mod = importlib.import_module(modname)
        fn = mod.HARNESSES[hname]
        from .models import rng
        def run(*a):
            rng.reset()
            return fn(*a)
        r = core.explore(run, tuple(hargs), timeout_ms=opts.get('timeout_ms', 20000),
                         time_budget=opts.get('time_budget'), max_paths=opts.get('max_paths'), slice=opts.get('slice'))
        r['harness'] = hname
        r['args'] = list(hargs)
        if opts.get('slice'):
            r['slice'] = list(opts['slice'])
        return r
    except BaseException as e:     # noqa
        return {'harness': hname, 'args': list(hargs), 'error': ''.join(traceback.format_exception(e))[-3000:]}


def load_known():
    p = os.path.join(ROOT, 'known_findings.json')
    if not os.path.exists(p):
        return []
    return json.load(open(p))['findings']


def write_replay(prop, modname, hname, hargs, f, sig):
    d = os.path.join(OUT, 'replays', prop)
    os.makedirs(d, exist_ok=True)
    payload = {'property': prop, 'module': modname, 'harness': hname, 'args': hargs, 'choices': f['choices'],
               'values': f['values'], 'label': f['label'], 'signature': sig, 'detail': f.get('detail', ''),
               'notes': f.get('notes', {}), 'path_labels': f.get('labels', [])}
    h = hashlib.sha1(json.dumps(payload, sort_keys=True, default=str).encode()).hexdigest()[:10]
    safe = ''.join(c if c.isalnum() or c in '-_.' else '_' for c in f"{hname}-{f['label']}")[:60]
    path = os.path.join(d, f"{safe}-{h}.py")
    with open(path, 'w') as fh:
        fh.write("#!/usr/bin/env python3\n"
                 '"""Replay of a solver counterexample against the real, unmodified library in /repo.\n'
                 f"property {prop}; harness {modname}.{hname}{tuple(hargs)}; assertion {f['label']}\n"
                 'exit 1 = the violation reproduces on the real code, 0 = it does not."""\n'
                 "import json, sys\n"
                 f"sys.path.insert(0, {ROOT!r})\n"
                 "from sx.replay import main\n"
                 f"CASE = json.loads({json.dumps(json.dumps(payload, default=str))})\n"
                 "sys.exit(main(CASE))\n")
    return path


def run_replay(path):
    py = os.path.join(ROOT, '.venv', 'bin', 'python')
    env = dict(os.environ, PYTHONPATH=ROOT, VERIF_REPO=REPO)
    try:
        p = subprocess.run([py, path], capture_output=True, text=True, timeout=300, env=env)
    except subprocess.TimeoutExpired:
        return 3, 'replay timeout'
    return p.returncode, (p.stdout + p.stderr)[-2000:]


def file_lines(relpath, names):
    """file:line ranges of the named functions, read from the current tree (for the evidence file)"""
    import ast
    p = os.path.join(REPO, relpath)
    out = []
    try:
        src = open(p).read()
        if p.endswith('.pyx'):
            from . import pyx2py
            src = pyx2py.translate(src)
        tree = ast.parse(src)
        for node in ast.walk(tree):
            if isinstance(node, (ast.FunctionDef, ast.ClassDef)) and node.name in names:
                out.append(f"{relpath}:{node.lineno}-{node.end_lineno} {node.name}")
    except (OSError, SyntaxError) as e:
        out.append(f"{relpath}: {e}")
    return sorted(set(out))


def main(argv=None):
    ap = argparse.ArgumentParser()
    ap.add_argument('prop')
    ap.add_argument('--tier', default=os.environ.get('VERIF_TIER', 'quick'))
    ap.add_argument('--only', default=None)
    ap.add_argument('--workers', type=int, default=int(os.environ.get('VERIF_WORKERS', '16')))
    ap.add_argument('--no-validate', action='store_true')
    a = ap.parse_args(argv)
    prop = a.prop.upper()
    seed = int(os.environ.get('VERIF_SEED', '0') or 0)
    t0 = time.time()
    modname = 'checks.' + prop.lower()
    mod = importlib.import_module(modname)

    # ---- model validation (differential, against the real libraries) before any verdict
    val = {}
    if not a.no_validate:
        from .models import validate
        try:
            val = validate.run_all(seed, a.tier)
        except Exception as e:      # noqa
            print(f"HARNESS-ERROR property={prop} model validation failed: {e}")
            traceback.print_exc()
            return 2

    jobs = mod.jobs(a.tier)
    if a.only:
        jobs = [j for j in jobs if j[0] == a.only]
    if seed:
        import random
        random.Random(seed).shuffle(jobs)
    if hasattr(mod, 'weight'):
        jobs.sort(key=lambda j: -mod.weight(j))
    opts = dict(getattr(mod, 'OPTS', {}).get(a.tier, {}))
    # a check may ask for heavy shards to be split into m disjoint parts of their path tree (mod.slices(job, tier) -> m): the parts
    # run in parallel and together are exactly the unsplit exploration
    parts = []
    for h, ha in jobs:
        m_ = int(mod.slices((h, ha), a.tier)) if hasattr(mod, 'slices') else 1
        parts += [(h, ha, (k, m_) if m_ > 1 else None) for k in range(max(m_, 1))]
    if a.tier == 'thorough' and parts:
        # bound the wall time of a thorough run (default 25 min of exploration): every shard gets an equal share of it
        wall_target = float(os.environ.get('VERIF_THOROUGH_WALL', '1500'))
        share = wall_target * a.workers / max(len(parts), a.workers)
        opts['time_budget'] = max(30.0, min(opts.get('time_budget', share), share))
    args = [(modname, h, list(ha), dict(opts, slice=sl) if sl else opts) for h, ha, sl in parts]
    results = []
    extra = []          # results of non-SX engines (CrossHair / direct queries) run by the check module
    if args:
        ctx = mp.get_context('fork')
        with ctx.Pool(min(a.workers, len(args)), maxtasksperchild=8) as pool:
            for r in pool.imap_unordered(_job, args, chunksize=1):
                results.append(r)
    if hasattr(mod, 'extra_engines'):
        try:
            extra = mod.extra_engines(a.tier, seed) or []
        except Exception as e:      # noqa
            print(f"HARNESS-ERROR property={prop} auxiliary engine failed: {e}")
            traceback.print_exc()
            return 2

    errors = [r for r in results if 'error' in r]
    for r in errors:
        print(f"HARNESS-ERROR property={prop} harness={r['harness']}{tuple(r['args'])}\n{r['error']}")
    if errors:
        return 2
    # vacuity guard: a shard in which no path ran to completion proves nothing (unsatisfiable assumptions / every path aborted)
    groups = {}
    for r in results:
        groups.setdefault((r['harness'], json.dumps(r['args'], default=str)), []).append(r)
    vacuous = [g[0] | {'aborted': sum(x['aborted'] for x in g)} for g in groups.values()
               if sum(x['paths'] for x in g) == 0 and not any(x.get('n_inconclusive', 0) or x.get('truncated') for x in g)]
    for r in vacuous:
        print(f"HARNESS-ERROR property={prop} vacuous shard (no path completed, {r['aborted']} aborted): {r['harness']}{tuple(r['args'])}")
    if vacuous:
        return 2

    # ---- counterexamples: group by signature, replay, classify
    known = [k for k in load_known() if k['property'] == prop]
    by_sig = {}
    for r in results:
        for f in r['findings']:
            by_sig.setdefault(_sig(r['harness'], f), []).append((r, f))
    for e in extra:
        for f in e.get('findings', []):
            by_sig.setdefault(f['signature'], []).append((e, f))
    # concrete fallback for inconclusive paths: one point of the path condition is run on the real library, so that a
    # plain wrong answer behind a modelling gap is still caught (labelled `fallback`; not a solver verdict)
    n_fallback = 0
    for r in results:
        for fb in r.get('fallbacks', [])[:4]:
            f = {'label': '*', 'sig': {}, 'choices': fb['choices'], 'values': fb['values'], 'labels': fb['labels'],
                 'notes': fb['notes'], 'detail': 'concrete fallback of an inconclusive path: ' + fb['reason']}
            by_sig.setdefault(f"{r['harness']}:fallback:{fb['reason'][:50]}:{n_fallback}", []).append((r, f))
            n_fallback += 1
    violations, known_hits, nonrepro, ch_spurious = [], [], [], []
    counts = {}
    for r in results:
        for k, v in r.get('finding_counts', {}).items():
            pass
    # replay up to 3 examples per signature (in parallel: each replay is its own interpreter on the real library)
    from concurrent.futures import ThreadPoolExecutor
    def try_sig(item):
        sig, lst = item
        out = []
        for r, f in lst[:3]:
            path = f['replay_path'] if 'replay_path' in f else write_replay(prop, modname, r['harness'], r['args'], f, sig)
            rc, txt = run_replay(path)
            out.append((path, f, rc, txt))
            if rc == 1:
                break
        return sig, out
    per = {}
    if by_sig:
        with ThreadPoolExecutor(max_workers=16) as tp:
            for sig, out in tp.map(try_sig, sorted(by_sig.items())):
                per[sig] = out
    for sig, lst in sorted(per.items()):
        hit = next(((p, f, out) for p, f, rc, out in lst if rc == 1), None)
        n = len(by_sig[sig])
        if hit is not None and hit[1].get('label') == '*':
            import re as _re
            m_ = _re.search(r'^FAILED-LABELS: (.*)$', hit[2], _re.M)
            labs = (m_.group(1).split('|') if m_ else ['?'])
            sig = f"{sig.split(':fallback:')[0]}:{labs[0]}{{fallback=1}}"
        if hit is None:
            p, f, rc, out = lst[-1]
            if sig.startswith('crosshair:'):
                # CrossHair's models are not exact (a spurious counterexample was observed in the feasibility probes): one that does
                # not reproduce on the real code makes the condition inconclusive, it is neither a violation nor a harness failure
                ch_spurious.append((sig, p))
            elif f.get('label') != '*':
                nonrepro.append((sig, p, rc, out))
            continue
        k = next((k for k in known if k.get('status') == 'known' and fnmatch.fnmatchcase(sig, k['signature'])), None)
        if k is not None:
            known_hits.append((k, sig, hit[0], n))
        else:
            violations.append((sig, hit[0], hit[1], n))

    # ---- evidence
    tot = lambda k: sum(r.get(k, 0) for r in results)      # noqa
    incon = sum(r.get('n_inconclusive', 0) for r in results) + sum(e.get('inconclusive', 0) for e in extra) + len(ch_spurious)
    reasons = {}
    for r in results:
        for reason, _ in r.get('inconclusive', []):
            reasons[reason[:120]] = reasons.get(reason[:120], 0) + 1
    reach = {}
    for r in results:
        for k, v in r.get('reach', {}).items():
            reach[f"{r['harness']}:{k}"] = reach.get(f"{r['harness']}:{k}", 0) + v
    meta = getattr(mod, 'META', {})
    encoded = []
    for rel, names in meta.get('encoded', {}).items():
        encoded += file_lines(rel, set(names))
    samples = []
    for r in results:
        for s in r.get('samples', [])[:1]:
            samples.append({'harness': r['harness'], 'args': r['args'], **s})
        if len(samples) >= 6:
            break
    for e in extra:
        samples += e.get('samples', [])[:2]
    per_h = {}
    for r in results:
        h = per_h.setdefault(r['harness'], {'shards': 0, 'paths': 0, 'queries': 0, 'wall_s': 0.0, 'truncated': 0})
        h['shards'] += 1
        h['paths'] += r['paths']
        h['queries'] += r['queries']
        h['wall_s'] = round(h['wall_s'] + r['wall_s'], 2)
        h['truncated'] += 1 if r.get('truncated') else 0
    truncated = sum(1 for r in results if r.get('truncated'))
    evaluations = tot('paths') + sum(e.get('evaluations', 0) for e in extra)
    nontrivial = tot('nontrivial') + sum(e.get('distinct_nontrivial', 0) for e in extra)
    ev = {
        'property_id': prop, 'tier': a.tier, 'seed': seed, 'level': 'other',
        'coverage': {
            'explanation': meta.get('explanation', '') + (
                " Bounded symbolic execution of the real source (SX engine): every control path within the stated bounds "
                "is executed once; on each path the postcondition is discharged by z3 for all values of the symbolic "
                "variables (unsat of pc AND NOT claim), so `evaluations` counts explored paths, not sampled inputs."),
            'evaluations': evaluations,
            'distinct_nontrivial': nontrivial,
            'rule': "one evaluation = one complete control path of a harness (distinct decision trail of structural choices and "
                    "solver-checked branches); non-trivial = the path carries >=1 symbolic variable and >=1 proof obligation.",
            'exhaustive': truncated == 0 and incon == 0,
            'samples': samples or [{'note': 'no SX path in this run'}],
            'functions_encoded': encoded,
            'bounds': meta.get('bounds', {}).get(a.tier, meta.get('bounds', {})),
            'outside_claim': meta.get('outside', []),
            'paths_aborted_infeasible': tot('aborted'),
            'proof_obligations': tot('claims'), 'obligations_discharged': tot('proved'),
            'obligations_needing_solver': tot('proved_symbolic'),
            'solver_queries': tot('queries') + sum(e.get('queries', 0) for e in extra),
            'solver_time_s': round(tot('solver_s') + sum(e.get('solver_s', 0) for e in extra), 2),
            'inconclusive_paths': incon, 'inconclusive_reasons': reasons,
            'shards_truncated_by_budget': truncated,
            'reachability_witnesses': reach,
            'per_harness': per_h,
            'slowest_shards': sorted(([r['wall_s'], r['harness'], r['args'], r['paths']] for r in results), reverse=True)[:8],
            'other_engines': [{k: v for k, v in e.items() if k not in ('findings', 'samples')} for e in extra],
            'model_validation': val,
            'counterexamples': {'signatures': len(by_sig), 'reproduced_new': len(violations),
                                'reproduced_known': len(known_hits), 'not_reproduced': len(nonrepro)},
            'known_findings_reported': [k['signature'] for k, _, _, _ in known_hits],
            'crosshair_counterexamples_not_reproduced': [sg for sg, _ in ch_spurious],
            'concrete_fallback_runs_for_inconclusive_paths': n_fallback,
        },
        'assumptions': meta.get('assumptions', []),
        'wall_s': round(time.time() - t0, 2),
        'violations': len(violations),
    }
    os.makedirs(os.path.join(OUT, 'evidence'), exist_ok=True)
    with open(os.path.join(OUT, 'evidence', f'{prop}.json'), 'w') as fh:
        json.dump(ev, fh, indent=1, default=str)

    print(f"[{prop} {a.tier}] paths={evaluations} nontrivial={nontrivial} queries={ev['coverage']['solver_queries']} "
          f"solver_s={ev['coverage']['solver_time_s']} inconclusive={incon} truncated={truncated} wall={ev['wall_s']}s")
    for reason, n in sorted(reasons.items(), key=lambda x: -x[1])[:8]:
        print(f"  inconclusive x{n}: {reason}")
    seen = set()
    for k, sig, path, n in known_hits:
        if id(k) in seen:
            continue
        seen.add(id(k))
        sigs = [s2 for k2, s2, _, _ in known_hits if k2 is k]
        print(f"KNOWN-FINDING: property={prop} {k['what']} [{len(sigs)} signature(s), e.g. {sig}; replay {path}]")
    for sig, path, rc, out in nonrepro:
        print(f"HARNESS-ERROR property={prop} counterexample did not reproduce on the real code: {sig} ({path}) rc={rc}\n{out[-800:]}")
    for sig, path, f, n in violations:
        print(f"VIOLATION property={prop} replay={path}")
        print(f"  signature={sig} paths={n} detail={f.get('detail', '')[:300]} values={f.get('values')}")
    if violations:
        return 1
    if nonrepro:
        return 2
    return 0


if __name__ == '__main__':
    sys.exit(main())
