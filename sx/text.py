"""Symbolic text (DESIGN.md 1.4): a string made of literal chunks and *holes*.

Holes:  Hole('num', spec, SNum)  -- a formatted number (spec: 'str', 'repr', '%f', '%d', '%1.3f', ...)
        Hole('raw', None, z3 String) -- a symbolic string interpolated as is
        Hole('json', None, z3 String) -- output of json.dumps on a symbolic string
An operation that would have to look inside a hole is decided by a solver query on the hole's
constraints (raw holes: z3 strings), justified by the token axiom for number holes (no whitespace,
no delimiter, parses back to the same number), or aborts the path as Unsupported (inconclusive).
"""
import z3
from . import core


class Hole:
    __slots__ = ('kind', 'spec', 'term')

    def __init__(self, kind, spec, term):
        self.kind, self.spec, self.term = kind, spec, term

    def __repr__(self):
        if self.kind == 'num':
            return f"<num:{self.spec}:{self.term}>"
        return f"<{self.kind}:{self.term}>"


def mk(parts):
    """normalise: merge adjacent literals, drop empties; all-literal -> plain str"""
    out = []
    for p in parts:
        if isinstance(p, SText):
            for q in p.parts:
                if isinstance(q, str) and out and isinstance(out[-1], str):
                    out[-1] += q
                elif q != '':
                    out.append(q)
        elif isinstance(p, str):
            if p == '':
                continue
            if out and isinstance(out[-1], str):
                out[-1] += p
            else:
                out.append(p)
        else:
            out.append(p)
    if not out:
        return ''
    if all(isinstance(p, str) for p in out):
        return ''.join(out)
    return SText(out)


# str.isspace characters of Python
WS = [' ', '\t', '\n', '\r', '\x0b', '\x0c', '\x1c', '\x1d', '\x1e', '\x1f', '\x85', '\xa0', ' ',
      ' ', ' ', ' ', ' ', '　'] + [chr(c) for c in range(0x2000, 0x200b)]


def _cls(chars):
    chars = list(chars)
    if len(chars) == 1:
        return z3.Re(z3.StringVal(chars[0]))
    return z3.Union(*[z3.Re(z3.StringVal(c)) for c in chars])


_ANY = None


def ANY():
    global _ANY
    if _ANY is None:
        _ANY = z3.AllChar(z3.ReSort(z3.StringSort()))
    return _ANY


def _decide(cond):
    return core.CTX.branch(cond)


class SText:
    """immutable; parts = list of str | Hole (normalised)"""
    __slots__ = ('parts',)

    def __init__(self, parts):
        self.parts = list(parts)

    def __repr__(self):
        return ''.join(p if isinstance(p, str) else repr(p) for p in self.parts)

    def __str__(self):
        raise core.Unsupported("str() of symbolic text at a C boundary: " + repr(self)[:80])

    # ---- building
    def __add__(self, o):
        if isinstance(o, (str, SText)):
            return mk([self, o])
        return NotImplemented

    def __radd__(self, o):
        if isinstance(o, str):
            return mk([o, self])
        return NotImplemented

    def __mod__(self, args):
        return fmt_mod(self, args)

    def __len__(self):
        if any(not isinstance(p, str) for p in self.parts):
            raise core.Unsupported("len of symbolic text")
        return sum(len(p) for p in self.parts)

    def __bool__(self):
        for p in self.parts:
            if isinstance(p, str) and p:
                return True
            if isinstance(p, Hole):
                if p.kind == 'num' or p.kind == 'json':
                    return True
                if _decide(z3.Length(p.term) > 0):
                    return True
        return False

    def __iter__(self):
        raise core.Unsupported("iteration over symbolic text")

    def __contains__(self, sub):
        if not isinstance(sub, str):
            raise core.Unsupported("symbolic `in` symbolic text")
        for p in self.parts:
            if isinstance(p, str):
                if sub in p:
                    return True
            elif p.kind == 'raw':
                if _decide(z3.Contains(p.term, z3.StringVal(sub))):
                    return True
            elif p.kind == 'num':
                if any(ch in '0123456789+-.einfa' for ch in sub):
                    raise core.Unsupported("substring test inside number hole")
            else:
                raise core.Unsupported("substring test inside json hole")
        # spanning a boundary between a literal and a hole is not decided for multi-char needles
        if len(sub) > 1:
            lits = [p for p in self.parts if isinstance(p, str)]
            if any(sub[:k] and (l.endswith(sub[:k]) or l.startswith(sub[k:])) for l in lits for k in range(1, len(sub))):
                raise core.Unsupported("needle may span a hole boundary")
        return False

    # ---- single-hole helpers
    def single_hole(self):
        if len(self.parts) == 1 and isinstance(self.parts[0], Hole):
            return self.parts[0]
        return None

    def __eq__(self, o):
        if isinstance(o, SText):
            if len(self.parts) == len(o.parts) and all(
                    (a is b) or (isinstance(a, str) and a == b) for a, b in zip(self.parts, o.parts)):
                return True
            a, b = self.single_hole(), o.single_hole()
            if a is not None and b is not None and a.kind == b.kind == 'raw':
                return _decide(a.term == b.term)
            raise core.Unsupported("equality of symbolic texts")
        if isinstance(o, str):
            h = self.single_hole()
            if h is not None and h.kind == 'raw':
                return _decide(h.term == z3.StringVal(o))
            if h is not None and h.kind == 'num':
                try:
                    float(o)
                except ValueError:
                    return False
                raise core.Unsupported("number hole == numeric literal")
            lits = ''.join(p for p in self.parts if isinstance(p, str))
            if len(lits) > len(o):
                return False
            raise core.Unsupported("symbolic text == literal")
        return NotImplemented

    def __ne__(self, o):
        r = self.__eq__(o)
        return r if r is NotImplemented else (not r)

    def __hash__(self):
        h = self.single_hole()
        if h is not None:
            # one bucket for all raw holes: membership / set / dict keys must go through __eq__, which asks the solver
            return 0x5e7 if h.kind == 'raw' else hash(id(h))
        raise core.Unsupported("hash of composite symbolic text")

    # ---- str API
    def _strip_side(self, parts, left, chars):
        parts = list(parts)
        while parts:
            p = parts[0] if left else parts[-1]
            if isinstance(p, str):
                q = p.lstrip(chars) if left else p.rstrip(chars)
                if q:
                    if left:
                        parts[0] = q
                    else:
                        parts[-1] = q
                    break
                parts.pop(0 if left else -1)
            else:
                if p.kind == 'num':
                    if chars is not None and any(c in '0123456789+-.einfa' for c in chars):
                        raise core.Unsupported("strip digits off a number hole")
                    break               # token axiom: a formatted number has no blanks
                if p.kind == 'json':
                    if chars is None or '"' not in chars:
                        break           # json string token starts/ends with a quote
                    raise core.Unsupported("strip inside json hole")
                cs = WS if chars is None else list(chars)
                star = z3.Star(_cls(cs))
                if _decide(z3.InRe(p.term, star)):
                    parts.pop(0 if left else -1)
                    continue
                edge = (z3.InRe(p.term, z3.Concat(_cls(cs), z3.Star(ANY()))) if left
                        else z3.InRe(p.term, z3.Concat(z3.Star(ANY()), _cls(cs))))
                if _decide(edge):
                    raise core.Unsupported("strip would cut inside a raw hole")
                break
        return parts

    def strip(self, chars=None):
        return mk(self._strip_side(self._strip_side(self.parts, True, chars), False, chars))

    def rstrip(self, chars=None):
        return mk(self._strip_side(self.parts, False, chars))

    def lstrip(self, chars=None):
        return mk(self._strip_side(self.parts, True, chars))

    def startswith(self, pre):
        if isinstance(pre, tuple):
            return any(self.startswith(p) for p in pre)
        if pre == '':
            return True
        p = self.parts[0]
        if isinstance(p, str):
            if len(p) >= len(pre):
                return p.startswith(pre)
            if not pre.startswith(p):
                return False
            raise core.Unsupported("prefix spans a hole")
        if p.kind == 'num':
            if pre[0] not in '0123456789+-.einfa':
                return False
            raise core.Unsupported("numeric prefix of number hole")
        if p.kind == 'json':
            return pre == '"' if len(pre) == 1 else (_ for _ in ()).throw(core.Unsupported("json prefix"))
        if len(self.parts) == 1 or True:
            # prefix inside first raw hole (if the hole is shorter than the prefix the answer may depend
            # on what follows; decide only the contained case)
            if _decide(z3.PrefixOf(z3.StringVal(pre), p.term)):
                return True
            if len(self.parts) > 1 and _decide(z3.Length(p.term) < len(pre)):
                raise core.Unsupported("prefix spans raw hole and successor")
            return False

    def endswith(self, suf):
        if suf == '':
            return True
        p = self.parts[-1]
        if isinstance(p, str):
            if len(p) >= len(suf):
                return p.endswith(suf)
            if not suf.endswith(p):
                return False
            raise core.Unsupported("suffix spans a hole")
        if p.kind == 'num':
            if suf[-1] not in '0123456789.einfa':
                return False
            raise core.Unsupported("numeric suffix of number hole")
        if p.kind == 'json':
            raise core.Unsupported("json suffix")
        if _decide(z3.SuffixOf(z3.StringVal(suf), p.term)):
            return True
        if len(self.parts) > 1 and _decide(z3.Length(p.term) < len(suf)):
            raise core.Unsupported("suffix spans raw hole and predecessor")
        return False

    def _split(self, sep, maxsplit, right):
        if sep is None:
            raise core.Unsupported("whitespace split of symbolic text")
        pieces = [[]]
        for p in self.parts:
            if isinstance(p, str):
                segs = p.split(sep)
                pieces[-1].append(segs[0])
                for sgm in segs[1:]:
                    pieces.append([sgm])
            else:
                if p.kind == 'raw':
                    if _decide(z3.Contains(p.term, z3.StringVal(sep))):
                        raise core.Unsupported("separator inside raw hole")
                elif p.kind == 'num':
                    if any(c in '0123456789+-.einfa' for c in sep):
                        raise core.Unsupported("numeric separator vs number hole")
                else:
                    raise core.Unsupported("split across json hole")
                pieces[-1].append(p)
        if len(sep) > 1:
            for a, b in zip(self.parts, self.parts[1:]):
                if isinstance(a, str) != isinstance(b, str):
                    lit = a if isinstance(a, str) else b
                    if any(lit.endswith(sep[:k]) or lit.startswith(sep[k:]) for k in range(1, len(sep))):
                        raise core.Unsupported("separator may span a hole boundary")
        out = [mk(x) for x in pieces]
        if maxsplit is not None and maxsplit >= 0 and len(out) > maxsplit + 1:
            if right:
                head = out[:len(out) - maxsplit]
                j = []
                for k, h in enumerate(head):
                    if k:
                        j.append(sep)
                    j.append(h)
                out = [mk(j)] + out[len(out) - maxsplit:]
            else:
                tail = out[maxsplit:]
                j = []
                for k, h in enumerate(tail):
                    if k:
                        j.append(sep)
                    j.append(h)
                out = out[:maxsplit] + [mk(j)]
        return out

    def split(self, sep=None, maxsplit=-1):
        return self._split(sep, None if maxsplit == -1 else maxsplit, False)

    def rsplit(self, sep=None, maxsplit=-1):
        return self._split(sep, None if maxsplit == -1 else maxsplit, True)

    def replace(self, old, new, count=-1):
        if count != -1:
            raise core.Unsupported("replace with count")
        out = []
        for p in self.parts:
            if isinstance(p, str):
                out.append(p.replace(old, new))
            elif p.kind == 'raw':
                if _decide(z3.Contains(p.term, z3.StringVal(old))):
                    raise core.Unsupported("replace inside raw hole")
                out.append(p)
            elif p.kind == 'num':
                if any(c in '0123456789+-.einfa' for c in old):
                    raise core.Unsupported("replace inside number hole")
                out.append(p)
            else:
                raise core.Unsupported("replace inside json hole")
        return mk(out)

    def encode(self, enc='utf8', errors='strict'):
        raise core.Unsupported("encode of symbolic text")

    def isspace(self):
        raise core.Unsupported("isspace of symbolic text")

    def join(self, items):
        return join(self, items)

    def format(self, *a, **k):
        raise core.Unsupported("format on symbolic template")


# ------------------------------------------------------------------ formatting entry points (AST instrumentation)
import re as _re
_SPEC = _re.compile(r'%(?:\((\w+)\))?([#0\- +]*\d*(?:\.\d+)?)([sdrfegi%])')


def _num_hole(spec, v):
    if isinstance(v, core.SBool):
        raise core.Unsupported("format of symbolic bool")
    return Hole('num', spec, v)


def fmt_one(spec_flags, conv, v):
    """format one value under a %-conversion; returns str | Hole | SText"""
    if isinstance(v, SText):
        if conv in 'sr' and spec_flags == '':
            if conv == 'r':
                raise core.Unsupported("%r of symbolic text")
            return v
        raise core.Unsupported(f"%{spec_flags}{conv} of symbolic text")
    if isinstance(v, core.SNum):
        if conv == 's' and spec_flags == '':
            return _num_hole('str', v)
        if conv == 'r' and spec_flags == '':
            return _num_hole('repr', v)
        return _num_hole('%' + spec_flags + conv, v)
    return ('%' + spec_flags + conv) % (v,)


def fmt_mod(template, args):
    """`template % args` where template is a str (or SText without holes in conversion position)"""
    if isinstance(template, SText):
        raise core.Unsupported("% on symbolic template")
    if not isinstance(template, str):
        return template % args
    flat = args if isinstance(args, tuple) else (args,)
    if isinstance(args, dict):
        if not any(isinstance(v, (SText, core.SNum, core.SBool)) for v in args.values()):
            return template % args
        raise core.Unsupported("mapping % with symbolic values")
    if not any(isinstance(v, (SText, core.SNum, core.SBool)) for v in flat):
        return template % args
    out, pos, k = [], 0, 0
    for m in _SPEC.finditer(template):
        out.append(template[pos:m.start()])
        pos = m.end()
        if m.group(3) == '%':
            out.append('%')
            continue
        if k >= len(flat):
            raise TypeError("not enough arguments for format string")
        out.append(fmt_one(m.group(2), m.group(3), flat[k]))
        k += 1
    if k != len(flat):
        raise TypeError("not all arguments converted during string formatting")
    out.append(template[pos:])
    return mk(out)


def to_text(v):
    """str(v) that keeps symbolic values symbolic"""
    if isinstance(v, SText):
        return v
    if isinstance(v, core.SNum):
        return SText([_num_hole('str', v)])
    if isinstance(v, core.SBool):
        raise core.Unsupported("str of symbolic bool")
    return str(v)


def fstr(*parts):
    """f-string with plain `{expr}` fields"""
    return mk([p if isinstance(p, (str, SText)) else to_text(p) for p in parts])


def join(sep, items):
    items = list(items)
    if isinstance(sep, str) and all(isinstance(i, str) for i in items):
        return sep.join(items)
    out = []
    for k, it in enumerate(items):
        if not isinstance(it, (str, SText)):
            raise TypeError("sequence item %d: expected str instance" % k)
        if k:
            out.append(sep)
        out.append(it)
    return mk(out)


def format_(template, *args, **kw):
    if not any(isinstance(a, (SText, core.SNum)) for a in list(args) + list(kw.values())):
        return template.format(*args, **kw)
    if kw:
        raise core.Unsupported("keyword .format with symbolic values")
    out, k = [], 0
    i = 0
    while i < len(template):
        ch = template[i]
        if template.startswith('{{', i):
            out.append('{'); i += 2; continue
        if template.startswith('}}', i):
            out.append('}'); i += 2; continue
        if ch == '{':
            j = template.index('}', i)
            field = template[i + 1:j]
            if field == '':
                out.append(to_text(args[k])); k += 1
            elif field.isdigit():
                out.append(to_text(args[int(field)]))
            else:
                raise core.Unsupported("format spec with symbolic values: " + field)
            i = j + 1
            continue
        out.append(ch)
        i += 1
    return mk(out)


class SFile:
    """write-only / read text stream collecting symbolic text (stands in for direct_io handles)"""

    def __init__(self, lines=None):
        self.chunks = []
        self._lines = list(lines) if lines is not None else None
        self._pos = 0

    def write(self, s):
        if not isinstance(s, (str, SText)):
            raise TypeError("write() argument must be str")
        self.chunks.append(s)

    def writelines(self, ls):
        for l in ls:
            self.write(l)

    def value(self):
        return mk(self.chunks)

    def close(self):
        pass

    def flush(self):
        pass

    def __enter__(self):
        return self

    def __exit__(self, *a):
        return False

    # reading side (list of lines)
    def seek(self, p):
        if p != 0:
            raise core.Unsupported("seek to non-zero")
        self._pos = 0
        self._cpos = 0

    def tell(self):
        if self._pos != 0:
            raise core.Unsupported("tell mid-stream")
        return 0

    def readline(self):
        if self._pos < len(self._lines):
            self._pos += 1
            return self._lines[self._pos - 1]
        return ''

    def readlines(self):
        out = self._lines[self._pos:]
        self._pos = len(self._lines)
        return out

    def __iter__(self):
        while self._pos < len(self._lines):
            self._pos += 1
            yield self._lines[self._pos - 1]

    def read(self, n=-1):
        # only the format sniffing idiom is supported: read(1) from the start, over literal text
        if n != 1 or self._pos != 0:
            raise core.Unsupported("read() on symbolic stream")
        k = getattr(self, '_cpos', 0)
        first = self._lines[0] if self._lines else ''
        lit = first if isinstance(first, str) else (first.parts[0] if isinstance(first.parts[0], str) else None)
        if lit is None or k >= len(lit):
            raise core.Unsupported("read(1) reached symbolic text")
        self._cpos = k + 1
        return lit[k]


def raw(name, domain=None, maxlen=6):
    """a symbolic text atom: SText with one raw hole (symbolic mode) / the model's string (concrete replay)"""
    t = core.CTX.strvar(name, domain, maxlen)
    if isinstance(t, str):
        return t
    return SText([Hole('raw', None, t)])


def regex_excluding(chars, nonempty=True, no_outer_blank=True, not_starting=''):
    """domain: strings over printable ASCII without `chars`; optionally non-empty, without leading/trailing blank,
    not starting with any of `not_starting`"""
    allowed = [chr(c) for c in range(32, 127) if chr(c) not in chars]
    inner = _cls(allowed)
    edge_chars = [c for c in allowed if not (no_outer_blank and c == ' ')]
    first = _cls([c for c in edge_chars if c not in not_starting])
    last = _cls(edge_chars)
    one = first if not no_outer_blank else _cls([c for c in edge_chars if c not in not_starting])
    body = z3.Union(one, z3.Concat(first, z3.Star(inner), last))
    return body if nonempty else z3.Union(z3.Re(z3.StringVal('')), body)
