"""SX core: decision-replay symbolic executor over z3 (DESIGN.md section 1.1).

One harness function is executed once per control path.  Symbolic scalars (`SNum`, `SBool`) build z3
terms; `bool()` of a symbolic condition forks (both sides checked for feasibility with the incremental
solver, the harness is re-executed from scratch for the other side).  `choice(n)` is a solver-free
n-way fork for discrete structure.  `prove(label, claim)` asks the solver whether `pc AND NOT claim`
is satisfiable; `unsat` = claim holds for every value on this path.

The same harness also runs in *concrete* mode (`Ctx(mode='conc')`): `choice` replays a recorded
trail, `var` returns the model's numbers and `prove` evaluates the claim -- this is how a solver
counterexample is replayed against the real, unmodified library.
"""
import time
import z3

REAL_TOL = 1e-9


class Abort(BaseException):
    """path abandoned: infeasible / assumption failed"""


class Skip(Abort):
    """the path belongs to another slice of a split shard (see explore(slice=...))"""


class Unsupported(BaseException):
    """a library model or symbolic-text operation cannot represent this path: inconclusive"""


class PathLimit(BaseException):
    pass


CTX = None


def ctx():
    return CTX


# --------------------------------------------------------------------------- values
def _z(x):
    """python / numpy / symbolic number -> z3 arithmetic term (or NotImplemented)"""
    if isinstance(x, SNum):
        return x.z
    if isinstance(x, SBool):
        return z3.If(x.z, z3.IntVal(1), z3.IntVal(0))
    if isinstance(x, bool):
        return z3.IntVal(int(x))
    if isinstance(x, int):
        return z3.IntVal(x)
    if isinstance(x, float):
        if x != x or x in (float('inf'), float('-inf')):
            return NotImplemented
        if x == int(x) and abs(x) < 2 ** 53:
            return z3.RealVal(int(x))
        n, d = x.as_integer_ratio()
        return z3.RealVal(n) / z3.RealVal(d)
    try:
        import numpy as np
        if isinstance(x, np.bool_):
            return z3.IntVal(int(x))
        if isinstance(x, np.integer):
            return z3.IntVal(int(x))
        if isinstance(x, np.floating):
            return _z(float(x))
    except ImportError:  # pragma: no cover
        pass
    return NotImplemented


def _real(t):
    return z3.ToReal(t) if t.is_int() else t


def _mk(t):
    t = z3.simplify(t)
    if z3.is_int_value(t):
        return t.as_long()
    if z3.is_rational_value(t):
        n, d = t.numerator_as_long(), t.denominator_as_long()
        return float(n) if d == 1 else n / d
    return SNum(t)


def _mkb(t):
    t = z3.simplify(t)
    if z3.is_true(t):
        return True
    if z3.is_false(t):
        return False
    return SBool(t)


class SBool:
    __slots__ = ('z',)

    def __init__(self, z_):
        self.z = z_

    def __bool__(self):
        return CTX.branch(self.z)

    @staticmethod
    def _c(o):
        if isinstance(o, SBool):
            return o.z
        if isinstance(o, SNum):
            return o.z != 0
        return z3.BoolVal(bool(o))

    def __and__(self, o):
        return _mkb(z3.And(self.z, self._c(o)))
    __rand__ = __and__

    def __or__(self, o):
        return _mkb(z3.Or(self.z, self._c(o)))
    __ror__ = __or__

    def __xor__(self, o):
        return _mkb(z3.Xor(self.z, self._c(o)))
    __rxor__ = __xor__

    def __invert__(self):
        return _mkb(z3.Not(self.z))

    def __eq__(self, o):
        return _mkb(self.z == self._c(o))

    def __ne__(self, o):
        return _mkb(self.z != self._c(o))

    def __hash__(self):
        return hash(self.z)

    def __int__(self):
        return 1 if bool(self) else 0
    __index__ = __int__

    def __add__(self, o):
        return SNum(_z(self)) + o
    __radd__ = __add__

    def __repr__(self):
        return f"SBool({self.z})"


class SNum:
    """symbolic number (z3 Int or Real term)"""
    __slots__ = ('z',)

    def __init__(self, z_):
        self.z = z_

    @property
    def isint(self):
        return self.z.is_int()

    def _bin(self, o, f, r=False):
        oz = _z(o)
        if oz is NotImplemented:
            return NotImplemented
        a, b = (oz, self.z) if r else (self.z, oz)
        if a.is_int() != b.is_int():
            a, b = _real(a), _real(b)
        return _mk(f(a, b))

    def __add__(self, o): return self._bin(o, lambda a, b: a + b)
    def __radd__(self, o): return self._bin(o, lambda a, b: a + b, True)
    def __sub__(self, o): return self._bin(o, lambda a, b: a - b)
    def __rsub__(self, o): return self._bin(o, lambda a, b: a - b, True)
    def __mul__(self, o): return self._bin(o, lambda a, b: a * b)
    def __rmul__(self, o): return self._bin(o, lambda a, b: a * b, True)

    def __truediv__(self, o):
        oz = _z(o)
        if oz is NotImplemented:
            return NotImplemented
        return _mk(_real(self.z) / _real(oz))

    def __rtruediv__(self, o):
        oz = _z(o)
        if oz is NotImplemented:
            return NotImplemented
        return _mk(_real(oz) / _real(self.z))

    def __neg__(self): return _mk(-self.z)
    def __pos__(self): return self

    def __abs__(self):
        return _mk(z3.If(self.z >= 0, self.z, -self.z))

    def is_integer(self):
        """float.is_integer(): decided by the solver (forks when both are possible)"""
        if self.z.is_int():
            return True
        return CTX.branch(self.z == z3.ToReal(z3.ToInt(self.z)))

    def trunc(self):
        """int(x) of a real: truncation towards zero, as an exact integer term"""
        if self.z.is_int():
            return self
        return _mk(z3.If(self.z >= 0, z3.ToInt(self.z), -z3.ToInt(-self.z)))

    def _cmp(self, o, f):
        oz = _z(o)
        if oz is NotImplemented:
            try:
                fo = float(o)
            except (TypeError, ValueError):
                return NotImplemented
            if fo == float('inf') or fo == float('-inf'):
                # every symbolic number is finite
                return bool(f(0.0, fo))
            return NotImplemented
        a, b = self.z, oz
        if a.is_int() != b.is_int():
            a, b = _real(a), _real(b)
        return _mkb(f(a, b))

    def __lt__(self, o): return self._cmp(o, lambda a, b: a < b)
    def __le__(self, o): return self._cmp(o, lambda a, b: a <= b)
    def __gt__(self, o): return self._cmp(o, lambda a, b: a > b)
    def __ge__(self, o): return self._cmp(o, lambda a, b: a >= b)

    def _is_zero_const(self, o):
        return isinstance(o, (int, float)) and not isinstance(o, bool) and o == 0

    def __eq__(self, o):
        if self._is_zero_const(o) and CTX is not None and self.z.get_id() in CTX.nonzero_ids:
            return False
        return self._cmp(o, lambda a, b: a == b)

    def __ne__(self, o):
        if self._is_zero_const(o) and CTX is not None and self.z.get_id() in CTX.nonzero_ids:
            return True
        return self._cmp(o, lambda a, b: a != b)

    def __hash__(self):
        return hash(self.z)

    def __bool__(self):
        if self.z.get_id() in CTX.nonzero_ids:
            return True
        return CTX.branch(self.z != 0)

    def __float__(self):
        raise Unsupported(f"float() of symbolic value {self.z} (C boundary)")

    def __int__(self):
        raise Unsupported(f"int() of symbolic value {self.z} (C boundary)")

    def __index__(self):
        raise Unsupported(f"index from symbolic value {self.z}")

    def __repr__(self):
        return f"S<{self.z}>"


def is_sym(x):
    return isinstance(x, (SNum, SBool))


# --------------------------------------------------------------------------- helpers usable in both modes
def eq(a, b):
    """equality claim between two numbers (symbolic: exact; concrete replay: relative tolerance)"""
    if hasattr(a, 'ndim') and a.ndim == 0 and hasattr(a, 'item'):
        a = a.item()
    if hasattr(b, 'ndim') and b.ndim == 0 and hasattr(b, 'item'):
        b = b.item()
    if is_sym(a) or is_sym(b):
        r = (a == b)
        return r
    if CTX is not None and CTX.mode == 'conc':
        try:
            fa, fb = float(a), float(b)
        except (TypeError, ValueError):
            return a == b
        if fa == fb:
            return True
        if fa != fa or fb != fb:
            return False
        return abs(fa - fb) <= REAL_TOL * max(1.0, abs(fa), abs(fb))
    return bool(a == b)


def and_(*cs):
    out = True
    zs = []
    for c in cs:
        if isinstance(c, SBool):
            zs.append(c.z)
        elif isinstance(c, SNum):
            zs.append(c.z != 0)
        elif not c:
            return False
    if not zs:
        return out
    return _mkb(z3.And(*zs))


def or_(*cs):
    zs = []
    for c in cs:
        if isinstance(c, SBool):
            zs.append(c.z)
        elif isinstance(c, SNum):
            zs.append(c.z != 0)
        elif c:
            return True
    if not zs:
        return False
    return _mkb(z3.Or(*zs))


def not_(c):
    if isinstance(c, SBool):
        return ~c
    if isinstance(c, SNum):
        return c == 0
    return not c


def ite(c, a, b):
    if isinstance(c, SBool):
        za, zb = _z(a), _z(b)
        if za.is_int() != zb.is_int():
            za, zb = _real(za), _real(zb)
        return _mk(z3.If(c.z, za, zb))
    return a if c else b


def ssum(xs, start=0):
    t = start
    for x in xs:
        t = t + x
    return t


# --------------------------------------------------------------------------- context
class Finding(dict):
    pass


class Ctx:
    """one exploration (symbolic) or one replay (concrete) of a harness"""

    def __init__(self, mode='sym', timeout_ms=20000, choices=None, values=None, max_paths=None):
        self.mode = mode
        self.has_strings = False
        self._last = None
        self.timeout_ms = timeout_ms
        self.solver = None
        self.trail = []            # [taken, [pending alternatives], kind]
        self.pos = 0
        self.nonzero_ids = set()
        self.queries = 0
        self.solver_time = 0.0
        self.paths = 0
        self.paths_nontrivial = 0
        self.aborted = 0
        self.inconclusive = []     # (reason, choices)
        self.findings = []
        self.finding_counts = {}
        self.proved = 0
        self.proved_symbolic = 0
        self.samples = []
        self.max_paths = max_paths
        self.slice = None          # (k, m, depth): explore only paths whose first `depth` structural choices hash to k modulo m
        self.skipped = 0
        # per path
        self.choices = []
        self.labels = []
        self.notes = {}
        self.vars = {}
        self._path_sym_claims = 0
        self._path_claims = 0
        self.claims = 0
        # concrete mode
        self.replay_choices = list(choices or [])
        self.replay_values = dict(values or {})
        self.conc_failures = []
        if mode == 'sym':
            self.solver = z3.Solver()
            self.solver.set('timeout', timeout_ms)

    # ---- solver plumbing
    def _check(self, *extra):
        t = time.time()
        self.queries += 1
        if self.has_strings:
            # z3's sequence solver is unreliable incrementally (observed: a 10 ms query times out after earlier checks
            # on the same solver object): string paths are decided on a fresh solver per query
            s2 = z3.Solver()
            s2.set('timeout', self.timeout_ms)
            s2.add(*self.solver.assertions())
            r = s2.check(*extra)
            self._last = s2
        else:
            r = self.solver.check(*extra)
            self._last = self.solver
        self.solver_time += time.time() - t
        return r

    def _start_path(self):
        self.pos = 0
        self.choices = []
        self.labels = []
        self.notes = {}
        self.vars = {}
        self.nonzero_ids = set()
        self._path_sym_claims = 0
        self._path_claims = 0
        self.has_strings = False
        self._nstruct = 0
        self._shash = 7
        if self.mode == 'sym':
            self.solver.reset()
            self.solver.set('timeout', self.timeout_ms)

    def _next_path(self):
        while self.trail and not self.trail[-1][1]:
            self.trail.pop()
        if not self.trail:
            return False
        self.trail[-1][0] = self.trail[-1][1].pop(0)
        return True

    # ---- API used by harnesses / models
    def var(self, name, kind='real', nonzero=False, lo=None, hi=None):
        if name in self.vars:
            raise RuntimeError(f"duplicate symbolic variable {name}")
        if self.mode == 'conc':
            v = self.replay_values.get(name)
            if v is None:
                v = 1 if nonzero else 0
            v = int(v) if kind == 'int' else float(v)
            self.vars[name] = v
            return v
        t = z3.Real(name) if kind == 'real' else z3.Int(name)
        self.vars[name] = t
        if nonzero:
            self.solver.add(t != 0)
            self.nonzero_ids.add(t.get_id())
        if lo is not None:
            self.solver.add(t >= lo)
        if hi is not None:
            self.solver.add(t <= hi)
        return SNum(t)

    def strvar(self, name, domain=None, maxlen=6):
        """symbolic string (z3 String under a regular-language domain); concrete replay: the model's string"""
        if name in self.vars:
            raise RuntimeError(f"duplicate symbolic variable {name}")
        if self.mode == 'conc':
            v = self.replay_values.get(name)
            if v is None:
                v = 'x'
            self.vars[name] = v
            return v
        t = z3.String(name)
        self.has_strings = True
        self.vars[name] = t
        if domain is not None:
            self.solver.add(z3.InRe(t, domain))
        if maxlen is not None:
            self.solver.add(z3.Length(t) <= maxlen)
        return t

    def mark_nonzero(self, v):
        if isinstance(v, SNum):
            self.nonzero_ids.add(v.z.get_id())

    def choice(self, n, label=''):
        if n <= 0:
            raise Abort()
        if self.mode == 'conc':
            if not self.replay_choices:
                raise Abort()
            c = self.replay_choices.pop(0)
            self.choices.append(c)
            if label:
                self.labels.append((label, c))
            return c
        if self.pos < len(self.trail):
            c = self.trail[self.pos][0]
        else:
            self.trail.append([0, list(range(1, n)), 'c'])
            c = 0
        self.pos += 1
        self.choices.append(c)
        if label:
            self.labels.append((label, c))
        self._nstruct += 1
        self._shash = (self._shash * 31 + c + 1) % 1000003
        if self.slice is not None and self._nstruct == self.slice[2] and self._shash % self.slice[1] != self.slice[0]:
            raise Skip()
        return c

    def branch(self, cond):
        if self.mode == 'conc':
            raise RuntimeError("symbolic branch in concrete mode")
        cond = z3.simplify(cond)
        if z3.is_true(cond):
            return True
        if z3.is_false(cond):
            return False
        if self.pos < len(self.trail):
            taken = self.trail[self.pos][0]
            self.pos += 1
            self.solver.add(cond if taken else z3.Not(cond))
            return taken
        t_ok = self._check(cond)
        f_ok = self._check(z3.Not(cond))
        if z3.unknown in (t_ok, f_ok):
            raise Unsupported("solver unknown on branch feasibility")
        t_ok, f_ok = t_ok == z3.sat, f_ok == z3.sat
        if t_ok and f_ok:
            self.trail.append([True, [False], 'b'])
        elif t_ok:
            self.trail.append([True, [], 'b'])
        elif f_ok:
            self.trail.append([False, [], 'b'])
        else:
            raise Abort()
        self.pos += 1
        taken = self.trail[-1][0]
        self.solver.add(cond if taken else z3.Not(cond))
        return taken

    def assume(self, c):
        if self.mode == 'conc':
            if not c:
                raise Abort()
            return
        if isinstance(c, SNum):
            c = c != 0
        if isinstance(c, SBool):
            self.solver.add(c.z)
            r = self._check()
            if r == z3.unsat:
                raise Abort()
            if r == z3.unknown:
                raise Unsupported("solver unknown on assumption")
        elif not c:
            raise Abort()

    def note(self, k, v):
        self.notes[k] = v

    def fail(self, label, detail='', _values=None, **sig):
        """a violation that needs no solver (IDs / metadata / exception mismatch on this path);
        `_values`: witness values decided by another engine (direct FP / string query) for named variables"""
        if self.mode == 'conc':
            self.conc_failures.append((label, detail))
            return
        m = None
        if self._check() == z3.sat:
            m = self._last.model()
        n0 = len(self.findings)
        self._record(label, m, detail, sig)
        if _values and len(self.findings) > n0:
            self.findings[-1]['values'].update(_values)

    def prove(self, label, claim, detail='', **sig):
        if self.mode == 'conc':
            if isinstance(claim, (SBool, SNum)):
                raise RuntimeError("symbolic claim in concrete mode")
            if not claim:
                self.conc_failures.append((label, detail))
            return bool(claim)
        if isinstance(claim, SNum):
            claim = claim != 0
        self.claims += 1
        self._path_claims += 1
        if not isinstance(claim, SBool):
            if claim:
                self.proved += 1
                return True
            return self.fail(label, detail, **sig)
        self._path_sym_claims += 1
        r = self._check(z3.Not(claim.z))
        if r == z3.unsat:
            self.proved += 1
            self.proved_symbolic += 1
            return True
        if r == z3.sat:
            self._record(label, self._last.model(), detail, sig, claim=claim.z)
            return False
        self.inconclusive.append((f"solver unknown on claim {label}", list(self.choices)))
        return None

    def reach(self, label):
        """reachability witness: counted per label"""
        self.notes.setdefault('_reach', []).append(label)

    # ---- recording
    def _pretty_model(self, claim):
        """try to get a small-integer model for the same violated claim (nicer, exactly representable replays)"""
        vs = list(self.vars.values())
        if not vs or self.has_strings:
            return None
        self.solver.push()
        try:
            if claim is not None:
                self.solver.add(z3.Not(claim))
            for bound in (4, 64):
                self.solver.push()
                for v in vs:
                    if z3.is_string(v):
                        continue
                    if v.is_int():
                        self.solver.add(v >= -bound, v <= bound)
                    else:
                        self.solver.add(z3.IsInt(v), v >= -bound, v <= bound)
                self.solver.set('timeout', 2000)
                r = self.solver.check()
                m = self.solver.model() if r == z3.sat else None
                self.solver.pop()
                if m is not None:
                    return m
        finally:
            self.solver.pop()
            self.solver.set('timeout', self.timeout_ms)
        return None

    def _fallback_model(self):
        """a concrete point of the current path condition for the concrete fallback run; preferred values are k + 1/3: not
        integral (truncation shows) and not representable in binary floating point of any width (narrowing to float32 shows)"""
        try:
            self.solver.set('timeout', 3000)
            m = None
            vs = list(self.vars.values())
            self.solver.push()
            for i, v in enumerate(vs):
                if z3.is_string(v):
                    continue
                if not v.is_int():
                    k = z3.Int(f"__k{i}")
                    self.solver.add(v == z3.ToReal(k) + z3.RealVal('1/3'), k >= -9, k <= 9)
            if self.solver.check() == z3.sat:
                m = self.solver.model()
            self.solver.pop()
            if m is None and self.solver.check() == z3.sat:
                m = self.solver.model()
            if m is None:
                return None
            out = {}
            for name, t in self.vars.items():
                v = m.eval(t, model_completion=True)
                if z3.is_int_value(v):
                    out[name] = v.as_long()
                elif z3.is_rational_value(v):
                    out[name] = v.numerator_as_long() / v.denominator_as_long()
                elif z3.is_string_value(v):
                    out[name] = _unescape(v.as_string())
                else:
                    return None
            return out
        except z3.Z3Exception:
            return None
        finally:
            self.solver.set('timeout', self.timeout_ms)

    def _record(self, label, model, detail, sig, claim=None):
        key = (label, tuple(sorted((k, str(v)) for k, v in sig.items())))
        if self.finding_counts.get(key, 0) >= 3:
            self.finding_counts[key] += 1
            return
        pm = None
        try:
            pm = self._pretty_model(claim)
        except z3.Z3Exception:
            pm = None
        model = pm or model
        values = {}
        if model is not None:
            for name, t in self.vars.items():
                v = model.eval(t, model_completion=True)
                if z3.is_int_value(v):
                    values[name] = v.as_long()
                elif z3.is_rational_value(v):
                    values[name] = v.numerator_as_long() / v.denominator_as_long()
                elif z3.is_string_value(v):
                    values[name] = _unescape(v.as_string())
                elif z3.is_algebraic_value(v):
                    values[name] = float(v.approx(20).as_fraction())
                else:
                    values[name] = str(v)
        key = (label, tuple(sorted((k, str(v)) for k, v in sig.items())))
        self.finding_counts[key] = self.finding_counts.get(key, 0) + 1
        if self.finding_counts[key] > 3:
            return          # keep 3 examples per signature, keep exploring
        self.findings.append(Finding(label=label, detail=str(detail)[:400], sig=dict(sig),
                                     choices=list(self.choices), values=values,
                                     labels=list(self.labels), notes=_jsonable(self.notes)))


def _unescape(s):
    """z3 prints non-printable characters as \\u{hex}"""
    import re
    return re.sub(r'\\u\{([0-9a-fA-F]+)\}', lambda m: chr(int(m.group(1), 16)), s)


def _library_exception_label(e):
    """`uncaught:<Type>` if the exception was raised inside the library under test (or a C library it called), None if it
    was raised by harness / engine code -- an exception escaping a library call the harness did not expect to fail is a
    property violation candidate (replayed like any other), not a harness crash"""
    import os
    import traceback
    tb = traceback.extract_tb(e.__traceback__)
    if not tb:
        return None
    here = os.path.dirname(os.path.dirname(os.path.abspath(__file__)))
    inner = tb[-1].filename
    if inner.startswith(here + os.sep) and (os.sep + 'models' + os.sep) not in inner:
        return None
    return 'uncaught:' + type(e).__name__


def _jsonable(x):
    import json
    try:
        json.dumps(x)
        return x
    except (TypeError, ValueError):
        if isinstance(x, dict):
            return {str(k): _jsonable(v) for k, v in x.items()}
        if isinstance(x, (list, tuple)):
            return [_jsonable(v) for v in x]
        return repr(x)


# --------------------------------------------------------------------------- module-level API (delegates to CTX)
def var(name, kind='real', **kw): return CTX.var(name, kind, **kw)
def strvar(name, domain=None, maxlen=6): return CTX.strvar(name, domain, maxlen)
def choice(n, label=''): return CTX.choice(n, label)
def assume(c): return CTX.assume(c)
def prove(label, claim, detail='', **sig): return CTX.prove(label, claim, detail, **sig)
def fail(label, detail='', _values=None, **sig): return CTX.fail(label, detail, _values=_values, **sig)
def note(k, v): return CTX.note(k, v)
def mode(): return CTX.mode
def flag(label=''): return bool(CTX.choice(2, label))


def pick(seq, label=''):
    seq = list(seq)
    return seq[CTX.choice(len(seq), label)]


# --------------------------------------------------------------------------- exploration driver
def explore(fn, args=(), timeout_ms=20000, max_paths=None, time_budget=None, max_findings=400, nsamples=3, slice=None):
    """run `fn(*args)` over every control path; returns a statistics dict (picklable).
    slice=(k, m[, depth]): one of m disjoint parts of the path tree (split on the first `depth` structural choices; a path with
    fewer structural choices belongs to part 0) -- the parts together are exactly the unsliced exploration."""
    global CTX
    c = Ctx('sym', timeout_ms=timeout_ms, max_paths=max_paths)
    if slice is not None:
        c.slice = (int(slice[0]), int(slice[1]), int(slice[2]) if len(slice) > 2 else 3)
    CTX = c
    t0 = time.time()
    truncated = None
    reach = {}
    fallbacks = []
    fallback_seen = {}
    while True:
        c._start_path()
        unsupported = None
        try:
            fn(*args)
            if c.slice is not None and c._nstruct < c.slice[2] and c.slice[0] != 0:
                raise Skip()        # too few structural choices to be assigned by hash: counted by part 0 only
            c.paths += 1
            if c._path_claims and c.vars:
                c.paths_nontrivial += 1
            if len(c.samples) < nsamples:
                c.samples.append({'choices': list(c.labels) or list(c.choices),
                                  'notes': _jsonable({k: v for k, v in c.notes.items() if k != '_reach'}),
                                  'claims': c._path_claims, 'claims_needing_solver': c._path_sym_claims,
                                  'symbolic_vars': len(c.vars)})
        except Skip:
            c.skipped += 1
        except Abort:
            c.aborted += 1
        except z3.Z3Exception as e:
            c.inconclusive.append((f"z3: {e}", list(c.choices)))
        except Exception as e:      # noqa
            if isinstance(e, TypeError) and any(n in str(e) for n in ('SNum', 'SText', 'SBool')):
                # a symbolic value was handed to compiled code (e.g. stored into a float32 buffer): not encodable
                unsupported = Unsupported(f"symbolic value reached a C boundary: {e}")
            else:
                lab = _library_exception_label(e)
                if lab is None:
                    raise           # raised by the harness / engine itself: a harness error, not library behaviour
                c.fail(lab, detail=f"{type(e).__name__}: {e}"[:200])
                c.paths += 1
        except Unsupported as e:
            unsupported = e
        if unsupported is not None:
            e = unsupported
            c.inconclusive.append((f"unsupported: {e}", list(c.choices)))
            key = str(e)[:60]
            if fallback_seen.get(key, 0) < 2:
                fallback_seen[key] = fallback_seen.get(key, 0) + 1
                fb = c._fallback_model()
                if fb is not None:
                    fallbacks.append({'reason': str(e)[:200], 'choices': list(c.choices), 'values': fb,
                                      'labels': list(c.labels), 'notes': _jsonable(c.notes)})
        for lab in c.notes.get('_reach', ()):
            reach[lab] = reach.get(lab, 0) + 1
        if len(c.findings) >= max_findings:
            truncated = 'max_findings'
            break
        if max_paths and c.paths + c.aborted >= max_paths:
            truncated = 'max_paths'
            break
        if time_budget and time.time() - t0 > time_budget:
            truncated = 'time_budget'
            break
        if not c._next_path():
            break
    CTX = None
    return {'paths': c.paths, 'nontrivial': c.paths_nontrivial, 'aborted': c.aborted, 'skipped_other_slices': c.skipped,
            'queries': c.queries, 'solver_s': round(c.solver_time, 3), 'proved': c.proved, 'claims': c.claims,
            'proved_symbolic': c.proved_symbolic,
            'inconclusive': [(r, ch) for r, ch in c.inconclusive[:20]], 'n_inconclusive': len(c.inconclusive),
            'findings': [dict(f) for f in c.findings], 'samples': c.samples, 'truncated': truncated,
            'finding_counts': {k[0] + str(dict(k[1])): v for k, v in c.finding_counts.items()},
            'reach': reach, 'wall_s': round(time.time() - t0, 3), 'fallbacks': fallbacks}


def replay(fn, args, choices, values):
    """run one path concretely (against whatever backend the harness binds in 'conc' mode)"""
    global CTX
    c = Ctx('conc', choices=choices, values=values)
    CTX = c
    c._start_path()
    status = 'ok'
    try:
        fn(*args)
    except Abort:
        status = 'abort'
    except Exception as e:      # noqa
        lab = _library_exception_label(e)
        if lab is None:
            CTX = None
            raise
        c.conc_failures.append((lab, f"{type(e).__name__}: {e}"[:200]))
    finally:
        CTX = None
    return status, c.conc_failures
