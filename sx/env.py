"""Loading the real biom source from /repo under SX (DESIGN.md 1.2).

`load('sym')`  : biom/*.py compiled from the current source through an AST instrumentation pass, the three
                 .pyx kernels translated to Python, numpy wrapped by a proxy, scipy.sparse / h5py / RNG
                 replaced by the models.  Returns a backend namespace `B`.
`load('conc')` : the unmodified library (real numpy/scipy/h5py and the compiled kernels) -- used for replays.

Harnesses are written against `B` only, so the same harness runs symbolically and concretely.
"""
import ast
import importlib
import importlib.abc
import importlib.machinery
import importlib.util
import operator
import os
import sys
import types

import numpy as _np

from . import core, pyx2py, text
from .models import sparse as spm

REPO = os.environ.get('VERIF_REPO', '/repo')
PYX = ('_filter', '_transform', '_subsample')


# ------------------------------------------------------------------------------------------------ shims
class _FloatMeta(type):
    def __instancecheck__(cls, x):
        return isinstance(x, (float, core.SNum)) and not (isinstance(x, core.SNum) and False)


class sfloat(metaclass=_FloatMeta):
    """float() that lets symbolic numbers through; float(text hole) -> the hole's number (token axiom)"""

    def __new__(cls, x=0.0):
        if isinstance(x, core.SNum):
            return x
        if isinstance(x, core.SBool):
            return core.ite(x, 1.0, 0.0)
        if isinstance(x, text.SText):
            x = x.strip()
            h = x.single_hole() if isinstance(x, text.SText) else None
            if h is not None and h.kind == 'num' and h.spec in ('str', 'repr'):
                return h.term        # axiom: float(str(v)) == v (shortest-repr round trip, trusted)
            if h is not None and h.kind == 'num':
                raise core.Unsupported(f"float() of number formatted with {h.spec}")
            if h is not None and h.kind == 'raw':
                f = _raw_float_hook
                if f is not None:
                    return f(h)
                raise core.Unsupported("float() of raw text hole")
            raise ValueError("could not convert string to float: %r" % (x,))
        if isinstance(x, _np.ndarray) and x.dtype == object and x.size == 1:
            return sfloat(x.item())
        return float(x)


_raw_float_hook = None


class _StrMeta(type):
    def __instancecheck__(cls, x):
        return isinstance(x, (str, text.SText))


class sstr(metaclass=_StrMeta):
    def __new__(cls, x='', *a):
        if a:
            return str(x, *a)
        if isinstance(x, (text.SText, core.SNum)):
            return text.to_text(x)
        m = getattr(type(x), '__str__', None)
        if m is not None and getattr(type(x), '__module__', '').startswith('biom'):
            return m(x)             # may legitimately be symbolic text (Table.__str__)
        return str(x)

    maketrans = str.maketrans
    join = str.join


def srepr(x):
    """repr() that keeps a symbolic number symbolic (a number hole with the 'repr' conversion)"""
    if isinstance(x, core.SNum):
        return text.SText([text.Hole('num', 'repr', x)])
    if isinstance(x, (text.SText, core.SBool)):
        raise core.Unsupported("repr() of symbolic text / condition")
    return repr(x)


class _IntMeta(type):
    def __instancecheck__(cls, x):
        if isinstance(x, core.SNum):
            return x.isint
        return isinstance(x, int)


class sint(metaclass=_IntMeta):
    def __new__(cls, x=0, *a):
        if a:
            return int(x, *a)
        if isinstance(x, core.SNum):
            return x if x.isint else x.trunc()
        if isinstance(x, text.SText):
            raise core.Unsupported("int() of symbolic text")
        return int(x)


class _BoolMeta(type):
    def __instancecheck__(cls, x):
        return isinstance(x, bool)


class sbool(metaclass=_BoolMeta):
    """bool() -- concretises a symbolic condition by forking"""

    def __new__(cls, x=False):
        return bool(x)


# ------------------------------------------------------------------------------------------------ AST helpers
_OPS = {ast.Lt: operator.lt, ast.LtE: operator.le, ast.Gt: operator.gt, ast.GtE: operator.ge,
        ast.Eq: operator.eq, ast.NotEq: operator.ne}


def _concretize(r):
    if isinstance(r, _np.ndarray) and r.dtype == object:
        out = _np.empty(r.shape, dtype=bool)
        flat = out.reshape(-1)
        for k, v in enumerate(r.reshape(-1)):
            flat[k] = bool(v)
        return out
    return r


def _sx_cmp(opname, a, b):
    return _concretize(getattr(operator, opname)(a, b))


def _sx_mod(a, b):
    if isinstance(a, str):
        return text.fmt_mod(a, b)
    return a % b


def _sx_join(sep, items):
    if isinstance(sep, (str, text.SText)):
        return text.join(sep, items)
    return sep.join(items)


def _sx_format(tmpl, *a, **k):
    return text.format_(tmpl, *a, **k)


def _sx_astype(obj, *a, **k):
    if isinstance(obj, _np.ndarray) and obj.dtype == object and any(core.is_sym(v) for v in obj.reshape(-1)):
        dt = a[0] if a else k.get('dtype')
        try:
            kind = _np.dtype(dt).kind
        except TypeError:
            kind = 'f'
        out = obj.copy()
        if kind in 'iu':
            for idx, v in enumerate(out.reshape(-1)):
                if isinstance(v, core.SNum):
                    if not v.isint:
                        raise core.Unsupported("astype(int) of symbolic real (truncation not modelled)")
                elif isinstance(v, float):
                    out.reshape(-1)[idx] = int(v)
        return out
    return obj.astype(*a, **k)


class _Rewriter(ast.NodeTransformer):
    def visit_BinOp(self, node):
        self.generic_visit(node)
        if isinstance(node.op, ast.Mod):
            return ast.copy_location(ast.Call(ast.Name('__sx_mod__', ast.Load()), [node.left, node.right], []), node)
        return node

    def visit_JoinedStr(self, node):
        self.generic_visit(node)
        parts = []
        for v in node.values:
            if isinstance(v, ast.Constant):
                parts.append(v)
            elif v.format_spec is None and v.conversion == -1:
                parts.append(v.value)
            else:
                return node            # formatted field: leave the f-string alone
        return ast.copy_location(ast.Call(ast.Name('__sx_fstr__', ast.Load()), parts, []), node)

    def visit_Compare(self, node):
        self.generic_visit(node)
        if len(node.ops) == 1 and type(node.ops[0]) in _OPS:
            nm = _OPS[type(node.ops[0])].__name__
            return ast.copy_location(ast.Call(ast.Name('__sx_cmp__', ast.Load()),
                                              [ast.Constant(nm), node.left, node.comparators[0]], []), node)
        return node

    def visit_Call(self, node):
        self.generic_visit(node)
        f = node.func
        if isinstance(f, ast.Attribute) and f.attr == 'join' and len(node.args) == 1 and not node.keywords:
            return ast.copy_location(ast.Call(ast.Name('__sx_join__', ast.Load()), [f.value, node.args[0]], []), node)
        if (isinstance(f, ast.Attribute) and f.attr == 'format' and isinstance(f.value, ast.Constant)
                and isinstance(f.value.value, str)):
            return ast.copy_location(ast.Call(ast.Name('__sx_format__', ast.Load()), [f.value] + node.args,
                                              node.keywords), node)
        if isinstance(f, ast.Attribute) and f.attr == 'astype':
            return ast.copy_location(ast.Call(ast.Name('__sx_astype__', ast.Load()), [f.value] + node.args,
                                              node.keywords), node)
        return node


def instrument(src, filename):
    tree = ast.parse(src, filename)
    tree = _Rewriter().visit(tree)
    ast.fix_missing_locations(tree)
    return compile(tree, filename, 'exec', dont_inherit=True)


HELPERS = {'__sx_mod__': _sx_mod, '__sx_fstr__': text.fstr, '__sx_join__': _sx_join, '__sx_format__': _sx_format,
           '__sx_cmp__': _sx_cmp, '__sx_astype__': _sx_astype}


# ------------------------------------------------------------------------------------------------ numpy proxy
class _RandomProxy:
    def __getattr__(self, k):
        if k == 'default_rng':
            from .models import rng
            return rng.default_rng
        raise core.Unsupported(f"np.random.{k}: randomness outside the seeded Generator")


class NPProxy:
    """real numpy, except that float array constructors yield object arrays able to hold symbolic scalars"""
    random = _RandomProxy()

    def __getattr__(self, k):
        return getattr(_np, k)

    @staticmethod
    def _dt(dtype):
        if dtype is sbool:
            return bool
        if dtype is sint:
            return int
        if dtype is sstr:
            return str
        if dtype is None or dtype is float or dtype is sfloat or dtype == 'float':
            return object
        try:
            if _np.dtype(dtype).kind == 'f' and _np.dtype(dtype).itemsize >= 8:
                return object
            # narrower floats stay real buffers: storing a symbolic value into one is refused (rounding is not modelled)
        except TypeError:
            pass
        return dtype

    @staticmethod
    def _explicit_object(dtype):
        return dtype is object or dtype == 'object' or dtype == 'O'

    def zeros(self, shape, dtype=None):
        if self._explicit_object(dtype):
            return _np.zeros(shape, dtype=object)
        a = _np.zeros(shape, dtype=self._dt(dtype))
        if a.dtype == object:
            a[...] = 0.0
        return a

    def empty(self, shape, dtype=None):
        if self._explicit_object(dtype):
            return _np.empty(shape, dtype=object)
        a = _np.empty(shape, dtype=self._dt(dtype))
        if a.dtype == object:
            a[...] = 0.0
        return a

    def ones(self, shape, dtype=None):
        if self._explicit_object(dtype):
            return _np.ones(shape, dtype=object)
        a = _np.ones(shape, dtype=self._dt(dtype))
        if a.dtype == object:
            a[...] = 1.0
        return a

    def _has_sym(self, a):
        if isinstance(a, _np.ndarray):
            return a.dtype == object and any(core.is_sym(v) for v in a.reshape(-1))
        if isinstance(a, (list, tuple)):
            return any(self._has_sym(v) for v in a)
        return core.is_sym(a)

    def asarray(self, a, dtype=None, **kw):
        if dtype is not None and self._has_sym(a):
            return _np.asarray(a, dtype=self._dt(dtype), **kw)
        return _np.asarray(a, dtype=dtype, **kw)

    def array(self, a, dtype=None, **kw):
        if dtype is not None and self._has_sym(a):
            return _np.array(a, dtype=self._dt(dtype), **kw)
        return _np.array(a, dtype=dtype, **kw)

    def ceil(self, a):
        if isinstance(a, _np.ndarray) and a.dtype == object:
            out = a.copy()
            for k, v in enumerate(out.reshape(-1)):
                if isinstance(v, core.SNum):
                    if not v.isint:
                        raise core.Unsupported("ceil of symbolic real")
                else:
                    out.reshape(-1)[k] = float(_np.ceil(v))
            return out
        return _np.ceil(a)

    def isclose(self, a, b, rtol=1e-05, atol=1e-08, equal_nan=False):
        """numpy's definition |a - b| <= atol + rtol * |b| (finite values), decided by the solver for symbolic entries"""
        if not (self._has_sym(a) or self._has_sym(b)):
            return _np.isclose(a, b, rtol=rtol, atol=atol, equal_nan=equal_nan)
        aa, bb = _np.broadcast_arrays(_np.asarray(a, dtype=object), _np.asarray(b, dtype=object))
        out = _np.empty(aa.shape, dtype=bool)
        fo = out.reshape(-1) if out.ndim else None
        for k, (x, y) in enumerate(zip(aa.reshape(-1), bb.reshape(-1))):
            r = bool(abs(x - y) <= atol + rtol * abs(y))          # forks when the solver allows both
            if fo is None:
                return r
            fo[k] = r
        return out

    def allclose(self, a, b, rtol=1e-05, atol=1e-08, equal_nan=False):
        r = self.isclose(a, b, rtol=rtol, atol=atol, equal_nan=equal_nan)
        return bool(_np.all(r))

    def where(self, cond, *a):
        if isinstance(cond, _np.ndarray) and cond.dtype == object:
            cond = _concretize(cond)
        return _np.where(cond, *a)

    def any(self, a, *k, **kw):
        if isinstance(a, _np.ndarray) and a.dtype == object:
            for v in a.reshape(-1):
                if v != 0:
                    return True
            return False
        return _np.any(a, *k, **kw)

    def all(self, a, *k, **kw):
        if isinstance(a, _np.ndarray) and a.dtype == object:
            for v in a.reshape(-1):
                if not (v != 0):
                    return False
            return True
        return _np.all(a, *k, **kw)

    def array_equal(self, a, b, *k, **kw):
        return _np.array_equal(a, b, *k, **kw)


npx = NPProxy()


# ------------------------------------------------------------------------------------------------ import hook
INSTRUMENT_ONLY = False        # validation mode: instrumentation + shims, real libraries (see sx/instr_plugin.py)


class _Loader(importlib.machinery.SourceFileLoader):
    def source_to_code(self, data, path, *, _optimize=-1):
        return instrument(data, path)

    def get_code(self, fullname):       # never use cached bytecode
        return self.source_to_code(self.get_data(self.get_filename(fullname)), self.get_filename(fullname))

    def exec_module(self, module):
        module.__dict__.update(HELPERS)
        if not INSTRUMENT_ONLY:     # the float/str shims only make sense together with the models (real scipy wants real dtypes)
            module.__dict__.update({'float': sfloat, 'str': sstr, 'repr': srepr})
        super().exec_module(module)
        if not INSTRUMENT_ONLY:
            _rebind(module)


class _PyxLoader(importlib.abc.Loader):
    def __init__(self, name, path):
        self.name, self.path = name, path

    def create_module(self, spec):
        return None

    def exec_module(self, module):
        src = pyx2py.translate(open(self.path).read())
        module.__dict__.update(HELPERS)
        module.__dict__.update({'float': sfloat, 'bool': sbool})
        module.__file__ = self.path
        exec(instrument(src, self.path), module.__dict__)
        module.__dict__['np'] = npx
        module.__sx_source__ = src


class _Finder(importlib.abc.MetaPathFinder):
    def find_spec(self, fullname, path, target=None):
        if fullname != 'biom' and not fullname.startswith('biom.'):
            return None
        rel = fullname.split('.')
        base = os.path.join(REPO, *rel)
        if INSTRUMENT_ONLY and rel[-1] in PYX:
            return None             # the compiled extensions
        if rel[-1] in PYX and os.path.exists(base + '.pyx'):
            return importlib.util.spec_from_loader(fullname, _PyxLoader(fullname, base + '.pyx'))
        if os.path.isdir(base) and os.path.exists(os.path.join(base, '__init__.py')):
            fn = os.path.join(base, '__init__.py')
            return importlib.util.spec_from_file_location(fullname, fn, loader=_Loader(fullname, fn),
                                                          submodule_search_locations=[base])
        if os.path.exists(base + '.py'):
            return importlib.util.spec_from_file_location(fullname, base + '.py', loader=_Loader(fullname, base + '.py'))
        return None


def _smin(xs):
    xs = list(xs)
    best = xs[0]
    for v in xs[1:]:
        if v < best:
            best = v
    return best


def _smax(xs):
    xs = list(xs)
    best = xs[0]
    for v in xs[1:]:
        if v > best:
            best = v
    return best


def _smean(xs):
    xs = list(xs)
    return core.ssum(xs) / len(xs)


def _smedian(xs):
    xs = list(xs)
    if not any(core.is_sym(x) for x in xs):
        return _np.median(xs)
    ys = []
    for v in xs:            # insertion sort: every comparison forks, the order is exact on each path
        k = len(ys)
        while k > 0 and v < ys[k - 1]:
            k -= 1
        ys.insert(k, v)
    n = len(ys)
    return ys[n // 2] if n % 2 else (ys[n // 2 - 1] + ys[n // 2]) / 2.0


_OPAQUE = [0]


def _sstd(xs, *a, **k):
    xs = list(xs)
    if not any(core.is_sym(x) for x in xs):
        return _np.std(xs, *a, **k)
    _OPAQUE[0] += 1
    return core.CTX.var(f"opaque_std_{len(core.CTX.vars)}")     # numpy.std: opaque (not claimed)


class _LocaleProxy:
    """locale.format_string on symbolic numbers yields a number hole; setlocale is a no-op"""
    LC_ALL = 6

    def setlocale(self, *a):
        return 'C'

    def format_string(self, fmt, val, grouping=False, monetary=False):
        if core.is_sym(val):
            return text.SText([text.Hole('num', fmt + (',grouping' if grouping else ''), val)])
        import locale as _l
        return _l.format_string(fmt, val, grouping=grouping)

    def __getattr__(self, k):
        import locale as _l
        return getattr(_l, k)


def _rebind(mod):
    """replace the C libraries a biom module imported by the models"""
    d = mod.__dict__
    for nm, fn in (('min', _smin), ('max', _smax), ('mean', _smean), ('median', _smedian), ('std', _sstd)):
        if nm in d and getattr(d[nm], '__module__', '') and d[nm] is getattr(_np, nm, None):
            d[nm] = fn
    if 'dumps' in d and callable(d['dumps']) and not getattr(d['dumps'], '_sx', False):
        real_dumps = d['dumps']

        def dumps(obj, *a, **k):
            if isinstance(obj, text.SText):
                h = obj.single_hole()
                if h is None or h.kind != 'raw':
                    raise core.Unsupported("json.dumps of composite symbolic text")
                return text.SText([text.Hole('json', None, h.term)])    # axiom: loads(dumps(s)) == s
            return real_dumps(obj, *a, **k)
        dumps._sx = True
        d['dumps'] = dumps
    if 'locale' in d and getattr(d['locale'], '__name__', '') == 'locale':
        d['locale'] = _LocaleProxy()
    if d.get('np') is _np:
        d['np'] = npx
    for nm in ('zeros', 'asarray'):
        if d.get(nm) is getattr(_np, nm):
            d[nm] = getattr(npx, nm)
    for nm in ('coo_matrix', 'csc_matrix', 'csr_matrix', 'dok_matrix', 'lil_matrix', 'bsr_matrix', 'isspmatrix', 'vstack', 'hstack'):
        if nm in d and not getattr(d[nm], '_is_sx_model', False) and getattr(d[nm], '__module__', '').startswith('scipy'):
            d[nm] = getattr(spm, nm)


class Backend:
    pass


_LOADED = {}


def load(mode='sym'):
    if mode in _LOADED:
        return _LOADED[mode]
    if _LOADED:
        raise RuntimeError("one backend per process")
    B = Backend()
    B.mode = mode
    sys.dont_write_bytecode = True
    if mode == 'sym':
        for k in [k for k in sys.modules if k == 'biom' or k.startswith('biom.')]:
            del sys.modules[k]
        from .models import h5, stats, pandas_stub
        h5.install()
        stats.install()
        pandas_stub.install()
        sys.meta_path.insert(0, _Finder())
        import biom.table as T
        import biom.err as E
        B.csr, B.csc, B.coo = spm.csr_matrix, spm.csc_matrix, spm.coo_matrix
        B.sp = spm
        B.h5 = h5
        B.np = npx
    else:
        if REPO not in sys.path:
            sys.path.insert(0, REPO)
        import biom.table as T
        import biom.err as E
        import scipy.sparse as sp
        assert os.path.realpath(T.__file__).startswith(os.path.realpath(REPO)), T.__file__
        B.csr, B.csc, B.coo = sp.csr_matrix, sp.csc_matrix, sp.coo_matrix
        B.sp = sp
        B.np = _np
        import h5py
        B.h5 = h5py
    B.T = T
    B.E = E
    B.Table = T.Table
    import biom.exception as X
    B.X = X
    _LOADED[mode] = B
    return B


def module(name):
    """import another biom module (biom.parse, biom.cli.table_validator, ...) through the active loader"""
    return importlib.import_module(name)
