"""pytest plugin: run the repository's own test suite against the AST-instrumented modules (real numpy / scipy / h5py bound).

Validation of the loader (DESIGN.md 1.2): the instrumentation pass (`%`, f-strings, join, format, astype, comparisons routed
through helpers) and the float/str shims must be semantics-preserving on concrete operands, so the suite has to give the
same results as on the plain modules.  usage:  python -m pytest -p sx.instr_plugin <repo>/biom/tests
"""
import sys


def pytest_configure(config):
    from sx import env
    for k in [k for k in sys.modules if k == 'biom' or k.startswith('biom.')]:
        del sys.modules[k]
    env.INSTRUMENT_ONLY = True
    sys.meta_path.insert(0, env._Finder())
