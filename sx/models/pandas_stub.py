"""Recorder standing in for pandas in symbolic runs: pandas' C internals cannot be executed symbolically, so the claim is
about what biom HANDS to pandas (matrix, index, columns); that pandas builds the frame it is given is trusted."""
import sys
import types


class DataFrame:
    def __init__(self, data=None, index=None, columns=None, **kw):
        self.data, self.index, self.columns, self.kind = data, index, columns, 'dense'

    class _Sparse:
        @staticmethod
        def from_spmatrix(mat, index=None, columns=None):
            df = DataFrame(mat, index=index, columns=columns)
            df.kind = 'sparse'
            return df
    sparse = _Sparse()

    def to_csv(self, fp, sep=','):
        raise NotImplementedError


def install():
    mod = types.ModuleType('pandas')
    mod.DataFrame = DataFrame
    mod._sx_stub = True
    sys.modules['pandas'] = mod
    return mod
