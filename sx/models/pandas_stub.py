"""Recorder standing in for pandas in symbolic runs: pandas' C internals cannot be executed symbolically, so the claim is
about what biom HANDS to pandas (matrix, index, columns); that pandas builds the frame it is given is trusted."""
import sys
import types


class DataFrame:
    def __init__(self, data=None, index=None, columns=None, **kw):
        self.data, self.index, self.columns, self.kind = data, index, columns, 'dense'

    class _Sparse:
        @staticmethod
        def from_spmatrix(mat, index=None, columns=None):
            df = DataFrame(mat, index=index, columns=columns)
            df.kind = 'sparse'
            return df
    sparse = _Sparse()

    def to_csv(self, fp=None, *args, **kw):
        """recorded, not performed: the text pandas writes for a frame is pandas' business; which options it is asked to apply
        (separator, float_format, columns, index, ...) is the caller's"""
        CSV_CALLS.append((self, fp, args, dict(kw)))


CSV_CALLS = []


def install():
    mod = types.ModuleType('pandas')
    mod.DataFrame = DataFrame
    mod._sx_stub = True
    sys.modules['pandas'] = mod
    return mod
