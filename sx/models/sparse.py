"""Executable model of the scipy.sparse subset that biom uses (DESIGN.md 1.3).

`data` arrays are numpy *object* arrays whose elements are Python numbers or symbolic `SNum`s;
`indices/indptr/row/col` are real int32 arrays, so the sparsity *structure* is concrete on every
path while the *values* are symbolic.  The model mirrors scipy's representation behaviour (which
conversion sorts, which keeps explicit zeros, which returns `self`, which aliases) because several
properties are about representation; `sx/models/validate.py` checks it differentially against the
real library on every run.
"""
import numpy as np
from .. import core


def _obj(a):
    a = list(a)
    out = np.empty(len(a), dtype=object)
    for i, v in enumerate(a):
        out[i] = v
    return out


def _i32(a):
    return np.asarray(list(a), dtype=np.int32)


def _isint(x):
    return isinstance(x, (int, np.integer)) and not isinstance(x, (bool, np.bool_))


def _unshim(t):
    # the instrumented modules see shims for the builtin float / int / bool
    return {'sfloat': float, 'sint': int, 'sbool': bool}.get(getattr(t, '__name__', None), t)


def _narrow(data, dtype):
    """values stored under an element type other than float64: exact for concrete values, refused for symbolic ones
    (rounding to float32 / truncation is not modelled -- the path becomes inconclusive and is re-run concretely)"""
    if dtype is None:
        return
    try:
        dt = np.dtype(_unshim(dtype))
    except TypeError:
        return
    if dt.kind == 'f' and dt.itemsize >= 8:
        return
    for k in range(len(data)):
        v = data[k]
        if core.is_sym(v):
            if dt.kind in 'iu' and isinstance(v, core.SNum) and v.isint:
                continue
            raise core.Unsupported(f"symbolic value stored with element type {dt} (rounding / truncation not modelled)")
        if dt.kind == 'f':
            data[k] = float(dt.type(v))
        elif dt.kind in 'iu' and isinstance(v, float):
            data[k] = int(v)


_REAL_NAMES = {}


def _real_names(fmt):
    if fmt not in _REAL_NAMES:
        import scipy.sparse as sp
        cls = getattr(sp, f"{fmt}_matrix", None) if fmt else None
        _REAL_NAMES[fmt] = frozenset(dir(cls)) if cls is not None else frozenset()
    return _REAL_NAMES[fmt]


class spmatrix:
    ndim = 2
    _is_sx_model = True

    @property
    def shape(self):
        return self._shape

    @property
    def dtype(self):
        return np.dtype(self._dtype)

    _dtype = float

    def getformat(self):
        return self.format

    def asformat(self, fmt, copy=False):
        if fmt is None or fmt == self.format:
            return self.copy() if copy else self
        return {'csr': self.tocsr, 'csc': self.tocsc, 'coo': self.tocoo}[fmt]()

    def astype(self, t, casting='unsafe', copy=True):
        t = _unshim(t)
        try:
            same = np.dtype(t) == self._dtype
        except TypeError:
            same = False
        if not copy and same:
            return self             # scipy hands back the very same object
        out = self.copy()
        try:
            kind = np.dtype(t).kind
        except TypeError:
            kind = 'f'
        if kind in 'iu':
            for k, v in enumerate(out.data):
                if isinstance(v, core.SNum) and not v.isint:
                    raise core.Unsupported("astype(int) of symbolic real")
                elif isinstance(v, float):
                    out.data[k] = int(v)
            out._dtype = np.dtype(t)
        elif kind == 'b':
            raise core.Unsupported("astype(bool)")
        else:
            _narrow(out.data, t)
            out._dtype = np.dtype(t)
        return out

    def toarray(self, order=None, out=None):
        res = np.empty(self._shape, dtype=object)
        res[...] = 0.0
        c = self.tocoo()
        for r, cc, v in zip(c.row, c.col, c.data):
            res[r, cc] = res[r, cc] + v
        return res

    def todense(self):
        return self.toarray()

    @property
    def T(self):
        return self.transpose()

    def sum(self, axis=None):
        d = self.toarray()
        if axis is None:
            tot = 0.0
            for v in d.flat:
                tot = tot + v
            return tot
        if axis in (0, -2):
            out = np.empty((1, self._shape[1]), dtype=object)
            for j in range(self._shape[1]):
                t = 0.0
                for i in range(self._shape[0]):
                    t = t + d[i, j]
                out[0, j] = t
            return out
        if axis in (1, -1):
            out = np.empty((self._shape[0], 1), dtype=object)
            for i in range(self._shape[0]):
                t = 0.0
                for j in range(self._shape[1]):
                    t = t + d[i, j]
                out[i, 0] = t
            return out
        raise ValueError("axis out of range")

    def __ne__(self, other):
        if not isinstance(other, spmatrix):
            raise core.Unsupported("sparse != non-sparse")
        if self._shape != other._shape:
            raise ValueError("inconsistent shapes")
        a = self.toarray()
        b = other.toarray()
        d, r, c = [], [], []
        for i in range(a.shape[0]):
            for j in range(a.shape[1]):
                if a[i, j] != b[i, j]:
                    d.append(True)
                    r.append(i)
                    c.append(j)
        res = coo_matrix((d, (r, c)), shape=self._shape).tocsr()
        res._dtype = np.dtype(bool)
        return res

    def __eq__(self, other):
        raise core.Unsupported("sparse ==")

    __hash__ = None

    def nonzero(self):
        c = self.tocoo()
        keep = [k for k in range(len(c.data)) if c.data[k] != 0]
        return c.row[keep], c.col[keep]

    def __len__(self):
        raise TypeError("sparse array length is ambiguous; use getnnz()")

    def __bool__(self):
        if self._shape == (1, 1):
            return self.nnz != 0
        raise ValueError("The truth value of an array with more than one element is ambiguous.")

    def __iter__(self):
        for r in range(self._shape[0]):
            yield self.tocsr().getrow(r)

    def getnnz(self, axis=None):
        if axis is None:
            return self.nnz
        c = self.tocoo()
        n = self._shape[1] if axis in (0, -2) else self._shape[0]
        out = np.zeros(n, dtype=np.int64)
        for r, cc in zip(c.row, c.col):
            out[int(cc) if axis in (0, -2) else int(r)] += 1
        return out

    @property
    def size(self):
        return self.nnz             # scipy: number of stored values

    def count_nonzero(self):
        return sum(1 for v in self.tocoo().data if v != 0)

    def __mul__(self, s):
        if isinstance(s, spmatrix) or isinstance(s, np.ndarray):
            raise core.Unsupported("sparse matmul")
        out = self.copy()
        out.data = _obj([v * s for v in out.data])
        return out
    __rmul__ = __mul__

    def __truediv__(self, s):
        if isinstance(s, (spmatrix, np.ndarray)):
            raise core.Unsupported("sparse / array")
        out = self.copy()
        out.data = _obj([v / s for v in out.data])
        out._dtype = np.dtype(float)
        return out

    def __itruediv__(self, s):
        return NotImplemented

    def __neg__(self):
        return self * -1

    def __matmul__(self, other):
        """sparse @ sparse: the product as a csr matrix over the structurally non-zero positions (entries in column order;
        scipy's own order within a row is unspecified)"""
        if not isinstance(other, spmatrix):
            raise core.Unsupported("sparse @ non-sparse")
        if self._shape[1] != other._shape[0]:
            raise ValueError("dimension mismatch")
        a, b_ = self.tocsr(), other.tocsr()
        data, indices, indptr = [], [], [0]
        for i in range(a._shape[0]):
            acc = {}
            for p in range(int(a.indptr[i]), int(a.indptr[i + 1])):
                k, va = int(a.indices[p]), a.data[p]
                for q in range(int(b_.indptr[k]), int(b_.indptr[k + 1])):
                    j, vb = int(b_.indices[q]), b_.data[q]
                    acc[j] = acc[j] + va * vb if j in acc else va * vb
            for j in sorted(acc):
                data.append(acc[j])
                indices.append(j)
            indptr.append(len(data))
        out = csr_matrix((data, indices, indptr), shape=(a._shape[0], b_._shape[1]))
        return out

    def dot(self, other):
        return self.__matmul__(other)

    def _elementwise(self, other, f):
        """self (+|-) other for two sparse matrices: entries over the union of the stored positions, in csr form with sorted
        indices; cells that cancel to a literal zero are dropped (scipy's binop kernels drop zeros)"""
        if not isinstance(other, spmatrix):
            raise core.Unsupported("sparse (+|-) non-sparse")
        if self._shape != other._shape:
            raise ValueError("inconsistent shapes")
        acc = {}
        for m_, sign in ((self, None), (other, f)):
            c = m_.tocoo()
            for r, cc, v in zip(c.row, c.col, c.data):
                k = (int(r), int(cc))
                if sign is None:
                    acc[k] = acc[k] + v if k in acc else v
                else:
                    acc[k] = sign(acc.get(k, 0.0), v)
        data, indices, indptr = [], [], [0]
        for i in range(self._shape[0]):
            for (r, j) in sorted(k for k in acc if k[0] == i):
                v = acc[(r, j)]
                if core.is_sym(v) or v != 0:
                    data.append(v)
                    indices.append(j)
            indptr.append(len(data))
        out = csr_matrix((data, indices, indptr), shape=self._shape)
        return out if self.format != 'csc' or other.format != 'csc' else out.tocsc()

    def __add__(self, other):
        return self._elementwise(other, lambda a, b: a + b)

    def __sub__(self, other):
        return self._elementwise(other, lambda a, b: a - b)

    def _not_modelled(self, *a, **k):
        raise core.Unsupported("sparse-matrix operation outside the model")
    __radd__ = __rsub__ = __pow__ = __rmatmul__ = multiply = maximum = minimum = power = _not_modelled

    def __getattr__(self, name):
        # what scipy's matrix of the same format provides but the model does not is "not encodable", never a library error
        if not name.startswith('_') and name in _real_names(getattr(type(self), 'format', None)):
            raise core.Unsupported(f"sparse-matrix attribute {name!r} outside the model")
        raise AttributeError(name)


class _cs(spmatrix):
    """compressed: major axis = rows for csr, cols for csc"""

    def __init__(self, arg, shape=None, dtype=None, copy=False):
        self._dtype = np.dtype(float)
        if isinstance(arg, spmatrix):
            o = arg.asformat(self.format)
            if o is arg and copy:
                o = arg.copy()
            self.data, self.indices, self.indptr, self._shape = o.data, o.indices, o.indptr, o._shape
            self._dtype = arg._dtype
        elif isinstance(arg, tuple) and len(arg) == 2 and all(_isint(x) for x in arg):
            self._shape = (int(arg[0]), int(arg[1]))
            self.data = _obj([])
            self.indices = _i32([])
            self.indptr = np.zeros(self._shape[self._maj] + 1, dtype=np.int32)
        elif isinstance(arg, tuple) and len(arg) == 3:
            d, i, p = arg
            self.data = _obj(list(d))
            self.indices = _i32(i)
            self.indptr = _i32(p)
            if shape is None:
                nmaj = len(self.indptr) - 1
                nmin = (int(max(self.indices)) + 1) if len(self.indices) else 0
                shape = (nmaj, nmin) if self._maj == 0 else (nmin, nmaj)
            self._shape = (int(shape[0]), int(shape[1]))
            if len(self.indptr) != self._shape[self._maj] + 1:
                raise ValueError("index pointer size (%d) should be (%d)"
                                 % (len(self.indptr), self._shape[self._maj] + 1))
            if len(self.data) != len(self.indices):
                raise ValueError("indices and data should have the same size")
            if len(self.indptr) and int(self.indptr[-1]) > len(self.data):
                raise ValueError("Last value of index pointer should be less than the size of index and data arrays")
            if len(self.indices) and (int(max(self.indices)) >= self._shape[1 - self._maj] or int(min(self.indices)) < 0):
                raise ValueError("column index exceeds matrix dimensions")
            if len(self.indptr) and int(self.indptr[-1]) < len(self.data):
                # scipy prunes on demand; keep it simple and prune now
                n = int(self.indptr[-1])
                self.data = self.data[:n]
                self.indices = self.indices[:n]
        else:
            o = coo_matrix(arg, shape=shape).asformat(self.format)
            self.data, self.indices, self.indptr, self._shape = o.data, o.indices, o.indptr, o._shape
        if dtype is not None:
            _narrow(self.data, dtype)
            self._dtype = np.dtype(_unshim(dtype))

    @property
    def nnz(self):
        return int(self.indptr[-1])

    @property
    def has_sorted_indices(self):
        for k in range(len(self.indptr) - 1):
            seg = self.indices[self.indptr[k]:self.indptr[k + 1]]
            if any(seg[i] > seg[i + 1] for i in range(len(seg) - 1)):
                return False
        return True

    @property
    def has_canonical_format(self):
        for k in range(len(self.indptr) - 1):
            seg = self.indices[self.indptr[k]:self.indptr[k + 1]]
            if any(seg[i] >= seg[i + 1] for i in range(len(seg) - 1)):
                return False
        return True

    def sort_indices(self):
        for k in range(len(self.indptr) - 1):
            s, e = int(self.indptr[k]), int(self.indptr[k + 1])
            order = sorted(range(s, e), key=lambda p: self.indices[p])   # stable
            self.indices[s:e] = self.indices[order]
            self.data[s:e] = self.data[order]

    def sorted_indices(self):
        o = self.copy()
        o.sort_indices()
        return o

    def sum_duplicates(self):
        if self.has_canonical_format:
            return
        if not self.has_sorted_indices:
            self.sort_indices()
        d, i, p = [], [], [0]
        for k in range(len(self.indptr) - 1):
            last = None
            for q in range(self.indptr[k], self.indptr[k + 1]):
                if last is not None and self.indices[q] == last:
                    d[-1] = d[-1] + self.data[q]
                else:
                    d.append(self.data[q])
                    i.append(self.indices[q])
                    last = self.indices[q]
            p.append(len(d))
        self.data, self.indices, self.indptr = _obj(d), _i32(i), _i32(p)

    def sum(self, axis=None):
        if axis is None:
            self.sum_duplicates()      # scipy does this in place (observed: indices get sorted)
        return spmatrix.sum(self, axis)

    def copy(self):
        o = self._wrap(self.data.copy(), self.indices.copy(), self.indptr.copy(), self._shape)
        o._dtype = self._dtype
        return o

    def eliminate_zeros(self):
        nd, ni, np_ = [], [], [0]
        changed = False
        for k in range(len(self.indptr) - 1):
            for p in range(self.indptr[k], self.indptr[k + 1]):
                if self.data[p] != 0:
                    nd.append(self.data[p])
                    ni.append(self.indices[p])
                else:
                    changed = True
            np_.append(len(nd))
        if changed or len(self.data) != len(nd):
            # scipy compacts in place and prunes: arrays keep identity only loosely; we rebind
            self.data = _obj(nd)
            self.indices = _i32(ni)
            self.indptr = _i32(np_)

    def tocoo(self, copy=None):
        if copy is None:
            copy = self._maj != 0       # scipy: csr.tocoo(copy=False), csc.tocoo(copy=True)
        maj = []
        for k in range(len(self.indptr) - 1):
            maj += [k] * int(self.indptr[k + 1] - self.indptr[k])
        n = int(self.indptr[-1])
        if self._maj == 0:
            o = coo_matrix((self.data[:n].copy(), (maj, self.indices[:n].copy())), shape=self._shape)
        else:
            o = coo_matrix((self.data[:n].copy(), (self.indices[:n].copy(), maj)), shape=self._shape)
        if not copy:
            # scipy shares the value array and the minor index array with the source (the major one is freshly expanded)
            o.data = self.data[:n]
            if self._maj == 0:
                o.col = self.indices[:n]
            else:
                o.row = self.indices[:n]
        o._dtype = self._dtype
        return o

    def _swap(self, cls):
        # csr->csc / csc->csr: counting sort by minor index, stable in major order; duplicates and
        # explicit zeros are kept (scipy csr_tocsc)
        nmin = self._shape[1 - self._maj]
        buckets = [[] for _ in range(nmin)]
        for k in range(len(self.indptr) - 1):
            for p in range(self.indptr[k], self.indptr[k + 1]):
                buckets[self.indices[p]].append((k, self.data[p]))
        d, i, p = [], [], [0]
        for b in buckets:
            for k, v in b:
                d.append(v)
                i.append(k)
            p.append(len(d))
        o = cls._wrap(_obj(d), _i32(i), _i32(p), self._shape)
        o._dtype = self._dtype
        return o

    def transpose(self, axes=None, copy=False):
        other = csc_matrix if self.format == 'csr' else csr_matrix
        if copy:
            d, i, p = self.data.copy(), self.indices.copy(), self.indptr.copy()
        else:
            d, i, p = self.data, self.indices, self.indptr
        o = other._wrap(d, i, p, (self._shape[1], self._shape[0]))
        o._dtype = self._dtype
        return o

    @classmethod
    def _wrap(cls, d, i, p, shape):
        o = cls.__new__(cls)
        o.data, o.indices, o.indptr, o._shape = d, i, p, (int(shape[0]), int(shape[1]))
        o._dtype = np.dtype(float)
        return o

    def _major_vec(self, k):
        k = int(k)
        n = self._shape[self._maj]
        if k < 0:
            k += n
        if not 0 <= k < n:
            raise IndexError("index (%d) out of range" % k)
        s, e = int(self.indptr[k]), int(self.indptr[k + 1])
        shp = (1, self._shape[1]) if self._maj == 0 else (self._shape[0], 1)
        o = self._wrap(self.data[s:e].copy(), self.indices[s:e].copy(), _i32([0, e - s]), shp)
        o._dtype = self._dtype
        return o

    def _get(self, maj, mino):
        nmaj, nmin = self._shape[self._maj], self._shape[1 - self._maj]
        maj, mino = int(maj), int(mino)
        if maj < 0:
            maj += nmaj
        if mino < 0:
            mino += nmin
        if not (0 <= maj < nmaj and 0 <= mino < nmin):
            raise IndexError("index out of range")
        tot = 0.0
        hit = False
        for p in range(self.indptr[maj], self.indptr[maj + 1]):
            if self.indices[p] == mino:
                tot = (tot + self.data[p]) if hit else self.data[p]
                hit = True
        return tot

    def _fancy_list(self, k, n):
        if isinstance(k, slice):
            return list(range(*k.indices(n)))
        arr = np.asarray(k)
        if arr.dtype == bool:
            if arr.shape != (n,):
                raise IndexError("boolean index shape mismatch")
            return [int(i) for i in np.where(arr)[0]]
        if arr.ndim != 1:
            raise core.Unsupported("n-d fancy index")
        out = []
        for v in arr:
            v = int(v)
            if v < 0:
                v += n
            if not 0 <= v < n:
                raise IndexError("index (%d) out of range" % v)
            out.append(v)
        return out

    def __getitem__(self, key):
        if not isinstance(key, tuple):
            key = (key, slice(None))
        r, c = key
        if _isint(r) and _isint(c):
            return self._get(r, c) if self._maj == 0 else self._get(c, r)
        majk, mink = (r, c) if self._maj == 0 else (c, r)
        nmaj, nmin = self._shape[self._maj], self._shape[1 - self._maj]
        if _isint(majk):
            majk = [majk]
            vec = True
        if _isint(mink):
            mink = [mink]
        majl = self._fancy_list(majk, nmaj)
        full_minor = isinstance(mink, slice) and mink == slice(None)
        out = self
        if not (isinstance(majk, slice) and majk == slice(None)):
            d, i, p = [], [], [0]
            for f in majl:
                for q in range(self.indptr[f], self.indptr[f + 1]):
                    d.append(self.data[q])
                    i.append(self.indices[q])
                p.append(len(d))
            shp = (len(majl), self._shape[1]) if self._maj == 0 else (self._shape[0], len(majl))
            out = self._wrap(_obj(d), _i32(i), _i32(p), shp)
        if not full_minor:
            minl = out._fancy_list(mink, nmin)
            # scipy csr_column_index1/2: stored order kept; each stored entry emitted once per
            # occurrence of its minor index in the fancy list, in increasing position order
            d, i, p = [], [], [0]
            for k in range(len(out.indptr) - 1):
                for q in range(out.indptr[k], out.indptr[k + 1]):
                    for pos, f in enumerate(minl):
                        if f == out.indices[q]:
                            d.append(out.data[q])
                            i.append(pos)
                p.append(len(d))
            shp = (out._shape[0], len(minl)) if self._maj == 0 else (len(minl), out._shape[1])
            out = self._wrap(_obj(d), _i32(i), _i32(p), shp)
        if out is self:
            out = self.copy()
        out._dtype = self._dtype
        return out

    def __setitem__(self, key, val):
        raise core.Unsupported("sparse __setitem__")

    def _extreme(self, axis, pick):
        if axis is not None:
            raise core.Unsupported("sparse min/max along an axis")
        vals = [v for row in dense_terms(self) for v in row]      # implicit zeros take part, as in scipy
        if not vals:
            raise ValueError("zero-size array to reduction operation")
        best = vals[0]
        for v in vals[1:]:
            if pick(v, best):
                best = v
        return best

    def min(self, axis=None):
        return self._extreme(axis, lambda a, b: bool(a < b))

    def max(self, axis=None):
        return self._extreme(axis, lambda a, b: bool(a > b))


class csr_matrix(_cs):
    format = 'csr'
    _maj = 0

    def tocsr(self, copy=False):
        return self.copy() if copy else self

    def tocsc(self, copy=False):
        return self._swap(csc_matrix)

    def getrow(self, i):
        return self._major_vec(i)

    def getcol(self, j):
        j = int(j)
        if j < 0:
            j += self._shape[1]
        if not 0 <= j < self._shape[1]:
            raise IndexError("index (%d) out of range" % j)
        return self[:, [j]]


class csc_matrix(_cs):
    format = 'csc'
    _maj = 1

    def tocsc(self, copy=False):
        return self.copy() if copy else self

    def tocsr(self, copy=False):
        return self._swap(csr_matrix)

    def getcol(self, j):
        return self._major_vec(j)

    def getrow(self, i):
        i = int(i)
        if i < 0:
            i += self._shape[0]
        if not 0 <= i < self._shape[0]:
            raise IndexError("index (%d) out of range" % i)
        return self[[i], :].tocsr()


class coo_matrix(spmatrix):
    format = 'coo'

    def __init__(self, arg, shape=None, dtype=None, copy=False):
        self._dtype = np.dtype(float)
        if isinstance(arg, spmatrix):
            o = arg.tocoo()
            self.data, self.row, self.col, self._shape = o.data.copy(), o.row.copy(), o.col.copy(), o._shape
            self._dtype = arg._dtype
            if shape is not None and tuple(shape) != self._shape:
                raise core.Unsupported("coo reshape on construction")
        elif isinstance(arg, tuple) and len(arg) == 2 and all(_isint(x) for x in arg):
            self._shape = (int(arg[0]), int(arg[1]))
            self.data = _obj([])
            self.row = _i32([])
            self.col = _i32([])
        elif isinstance(arg, tuple) and len(arg) == 2:
            d, (r, c) = arg
            self.data = _obj(list(d))
            self.row = _i32(r)
            self.col = _i32(c)
            if not (len(self.data) == len(self.row) == len(self.col)):
                raise ValueError("row, column, and data array must all be the same length")
            if shape is None:
                if len(self.row) == 0:
                    raise ValueError("cannot infer dimensions from zero sized index arrays")
                shape = (int(max(self.row)) + 1, int(max(self.col)) + 1)
            self._shape = (int(shape[0]), int(shape[1]))
            if len(self.row):
                if int(max(self.row)) >= self._shape[0]:
                    raise ValueError("row index exceeds matrix dimensions")
                if int(max(self.col)) >= self._shape[1]:
                    raise ValueError("column index exceeds matrix dimensions")
                if int(min(self.row)) < 0 or int(min(self.col)) < 0:
                    raise ValueError("negative index found")
        else:
            if isinstance(arg, np.ndarray):
                dense = arg
            else:
                try:
                    dense = np.asarray(arg, dtype=object)
                except ValueError:
                    raise core.Unsupported("ragged dense input")
            if dense.ndim == 0:
                raise TypeError("expected dimension <= 2 array or matrix")
            if dense.ndim == 1:
                dense = dense.reshape(1, -1)
            if dense.ndim != 2:
                raise TypeError("expected dimension <= 2 array or matrix")
            d, r, c = [], [], []
            for i in range(dense.shape[0]):
                for j in range(dense.shape[1]):
                    if dense[i, j] != 0:
                        d.append(dense[i, j])
                        r.append(i)
                        c.append(j)
            self.data = _obj(d)
            self.row = _i32(r)
            self.col = _i32(c)
            if shape is not None and tuple(int(x) for x in shape) != tuple(dense.shape):
                raise ValueError("inconsistent shapes: %s != %s" % (tuple(shape), dense.shape))
            self._shape = tuple(int(x) for x in dense.shape)
        if dtype is not None:
            _narrow(self.data, dtype)
            self._dtype = np.dtype(_unshim(dtype))

    @property
    def nnz(self):
        return len(self.data)

    def copy(self):
        o = coo_matrix((self.data.copy(), (self.row.copy(), self.col.copy())), shape=self._shape)
        o._dtype = self._dtype
        return o

    def tocoo(self, copy=False):
        return self.copy() if copy else self

    def transpose(self, axes=None, copy=False):
        o = coo_matrix((self.data.copy() if copy else self.data, (self.col.copy(), self.row.copy())),
                       shape=(self._shape[1], self._shape[0]))
        o._dtype = self._dtype
        return o

    has_canonical_format = False

    def _compress(self, cls, maj, mino, nmaj):
        if self.has_canonical_format:
            # scipy skips sum_duplicates: stable grouping by major, stored order kept inside a vector
            rows = [[] for _ in range(nmaj)]
            for a, b, v in zip(maj, mino, self.data):
                rows[int(a)].append((int(b), v))
            d, i, p = [], [], [0]
            for rd in rows:
                for b, v in rd:
                    d.append(v)
                    i.append(b)
                p.append(len(d))
            o = cls._wrap(_obj(d), _i32(i), _i32(p), self._shape)
            o._dtype = self._dtype
            return o
        # scipy coo_tocsr followed by sum_duplicates: grouped by major, sorted by minor, duplicates summed
        rows = [dict() for _ in range(nmaj)]
        for a, b, v in zip(maj, mino, self.data):
            a, b = int(a), int(b)
            rows[a][b] = rows[a][b] + v if b in rows[a] else v
        d, i, p = [], [], [0]
        for rd in rows:
            for b in sorted(rd):
                d.append(rd[b])
                i.append(b)
            p.append(len(d))
        o = cls._wrap(_obj(d), _i32(i), _i32(p), self._shape)
        o._dtype = self._dtype
        return o

    def tocsr(self, copy=False):
        return self._compress(csr_matrix, self.row, self.col, self._shape[0])

    def tocsc(self, copy=False):
        return self._compress(csc_matrix, self.col, self.row, self._shape[1])

    def eliminate_zeros(self):
        keep = [k for k in range(len(self.data)) if self.data[k] != 0]
        self.data = self.data[keep]
        self.row = self.row[keep]
        self.col = self.col[keep]

    def getrow(self, i):
        return self.tocsr().getrow(i)

    def getcol(self, j):
        return self.tocsc().getcol(j)

    def __getitem__(self, key):
        raise TypeError("'coo_matrix' object is not subscriptable")


class dok_matrix(spmatrix):
    format = 'dok'

    def __init__(self, arg, shape=None, dtype=None, copy=False):
        self._dtype = np.dtype(dtype if dtype is not None else float)
        if isinstance(arg, spmatrix):
            c = arg.tocoo()
            self._shape = c._shape
            self.d = {}
            for r, cc, v in zip(c.row, c.col, c.data):
                k = (int(r), int(cc))
                self.d[k] = self.d[k] + v if k in self.d else v
            self.d = {k: self.d[k] for k in sorted(self.d)}       # scipy goes through coo.sum_duplicates(): row-major key order
        else:
            self._shape = tuple(int(x) for x in arg)
            self.d = {}

    @property
    def nnz(self):
        return len(self.d)

    def _key(self, k):
        r, c = int(k[0]), int(k[1])
        if r < 0:
            r += self._shape[0]
        if c < 0:
            c += self._shape[1]
        if not (0 <= r < self._shape[0] and 0 <= c < self._shape[1]):
            raise IndexError("index out of bounds")
        return r, c

    def __getitem__(self, k):
        return self.d.get(self._key(k), 0.0)

    def __setitem__(self, k, v):
        k = self._key(k)
        if self._dtype != np.dtype(float):
            cell = [v]
            _narrow(cell, self._dtype)          # a dictionary of float32 / int cells rounds what it is given
            v = cell[0]
        if not core.is_sym(v) and v == 0:
            self.d.pop(k, None)       # scipy dok drops zeros on assignment
        elif core.is_sym(v) and not (v != 0):
            self.d.pop(k, None)
        else:
            self.d[k] = v

    def copy(self):
        o = dok_matrix(self._shape, dtype=self._dtype)
        o.d = dict(self.d)
        return o

    def tocoo(self, copy=False):
        ks = list(self.d)
        o = coo_matrix(([self.d[k] for k in ks], ([k[0] for k in ks], [k[1] for k in ks])), shape=self._shape)
        o._dtype = self._dtype
        o.has_canonical_format = True
        return o

    def tocsr(self, copy=False):
        return self.tocoo().tocsr()

    def tocsc(self, copy=False):
        return self.tocoo().tocsc()

    def transpose(self, axes=None, copy=False):
        o = dok_matrix((self._shape[1], self._shape[0]), dtype=self._dtype)
        o.d = {(b, a): v for (a, b), v in self.d.items()}
        return o


class _via_csr(spmatrix):
    """formats the library only ever converts (lil, bsr): they hold what their tocsr() yields"""

    def __init__(self, arg, shape=None, dtype=None, copy=False, blocksize=None):
        if not isinstance(arg, spmatrix):
            arg = coo_matrix(arg, shape=shape).tocsr()
            if dtype is not None:
                arg._dtype = np.dtype(dtype)
        src = arg.tocsr()
        self._shape = src._shape
        self._dtype = np.dtype(dtype) if dtype is not None else src._dtype
        rows = []
        for i in range(self._shape[0]):
            ent = {}
            for k in range(int(src.indptr[i]), int(src.indptr[i + 1])):
                j = int(src.indices[k])
                if j in ent and self.format == 'bsr':
                    raise core.Unsupported("bsr_matrix from a matrix with duplicate entries")
                ent[j] = ent[j] + src.data[k] if j in ent else src.data[k]       # lil: duplicates are summed
            rows.append(ent)
        self._rows = self._fill(rows, blocksize)

    def _fill(self, rows, blocksize):
        return rows

    @property
    def nnz(self):
        return sum(len(r) for r in self._rows)

    def tocsr(self, copy=False):
        data, indices, indptr = [], [], [0]
        for ent in self._rows:
            for j in ent:
                data.append(ent[j])
                indices.append(j)
            indptr.append(len(data))
        o = csr_matrix((data, indices, indptr), shape=self._shape)
        o._dtype = self._dtype
        return o

    def tocsc(self, copy=False):
        return self.tocsr().tocsc()

    def tocoo(self, copy=False):
        return self.tocsr().tocoo()

    def copy(self):
        o = type(self).__new__(type(self))
        o._shape, o._dtype, o._rows = self._shape, self._dtype, [dict(r) for r in self._rows]
        if hasattr(self, 'blocksize'):
            o.blocksize = self.blocksize
        return o

    def transpose(self, axes=None, copy=False):
        return type(self)(self.tocsr().transpose().tocsr())


class lil_matrix(_via_csr):
    """rows of sorted (column, value) lists; explicitly stored zeros of the source are kept"""
    format = 'lil'

    def _fill(self, rows, blocksize):
        return [{j: ent[j] for j in sorted(ent)} for ent in rows]


class bsr_matrix(_via_csr):
    """dense R x C blocks: every cell of a block that holds any stored entry is stored (zeros included)"""
    format = 'bsr'

    def _fill(self, rows, blocksize):
        if blocksize is None:
            raise core.Unsupported("bsr_matrix without an explicit blocksize (scipy estimates one from the data)")
        R, C = int(blocksize[0]), int(blocksize[1])
        if self._shape[0] % R or self._shape[1] % C:
            raise ValueError("invalid blocksize %r" % ((R, C),))
        self.blocksize = (R, C)
        out = []
        for bi in range(self._shape[0] // R):
            order = []          # block columns in order of first appearance, scanning the block's rows in storage order
            for i in range(bi * R, (bi + 1) * R):
                for j in rows[i]:
                    if j // C not in order:
                        order.append(j // C)
            for i in range(bi * R, (bi + 1) * R):
                out.append({j: rows[i].get(j, 0.0) for bj in order for j in range(bj * C, (bj + 1) * C)})
        return out


def isspmatrix(x):
    return isinstance(x, spmatrix)


issparse = isspmatrix


def _cs_stack_major(blocks, cls):
    """scipy _compressed_sparse_stack: concatenate along the major axis, entries as stored"""
    dd, ii, pp = [], [], [0]
    nmin = blocks[0].shape[1 - cls._maj]
    nmaj = 0
    for b in blocks:
        if b.shape[1 - cls._maj] != nmin:
            raise ValueError("Mismatching dimensions along axis %d" % (1 - cls._maj))
        for k in range(len(b.indptr) - 1):
            for q in range(b.indptr[k], b.indptr[k + 1]):
                dd.append(b.data[q])
                ii.append(b.indices[q])
            pp.append(len(dd))
        nmaj += b.shape[cls._maj]
    shape = (nmaj, nmin) if cls._maj == 0 else (nmin, nmaj)
    return cls._wrap(_obj(dd), _i32(ii), _i32(pp), shape)


def _cs_stack_minor(blocks, cls):
    """scipy _stack_along_minor_axis: per major vector, entries of block 0 then block 1 (offset) ..."""
    nmaj = blocks[0].shape[cls._maj]
    dd, ii, pp = [], [], [0]
    for b in blocks:
        if b.shape[cls._maj] != nmaj:
            raise ValueError("Mismatching dimensions along axis %d" % cls._maj)
    for k in range(nmaj):
        off = 0
        for b in blocks:
            for q in range(b.indptr[k], b.indptr[k + 1]):
                dd.append(b.data[q])
                ii.append(int(b.indices[q]) + off)
            off += b.shape[1 - cls._maj]
        pp.append(len(dd))
    nmin = sum(b.shape[1 - cls._maj] for b in blocks)
    shape = (nmaj, nmin) if cls._maj == 0 else (nmin, nmaj)
    return cls._wrap(_obj(dd), _i32(ii), _i32(pp), shape)


def _stack(blocks, axis, format=None, dtype=None):
    blocks = list(blocks)
    if not blocks:
        raise ValueError("blocks must be non-empty")
    for b in blocks:
        if not isinstance(b, spmatrix):
            raise core.Unsupported("stack of non-sparse block")
    for fmt, cls in (('csr', csr_matrix), ('csc', csc_matrix)):
        if format in (None, fmt) and all(b.format == fmt for b in blocks):
            out = _cs_stack_major(blocks, cls) if axis == cls._maj else _cs_stack_minor(blocks, cls)
            if dtype is not None:
                _narrow(out.data, dtype)
                out._dtype = np.dtype(_unshim(dtype))
            return out
    d, r, c = [], [], []
    off = 0
    other = blocks[0].shape[1 - axis]
    for b in blocks:
        co = b.tocoo()
        if b.shape[1 - axis] != other:
            raise ValueError("Mismatching dimensions along axis %d" % (1 - axis))
        d += list(co.data)
        if axis == 0:
            r += [int(x) + off for x in co.row]
            c += [int(x) for x in co.col]
        else:
            r += [int(x) for x in co.row]
            c += [int(x) + off for x in co.col]
        off += b.shape[axis]
    shape = (off, other) if axis == 0 else (other, off)
    out = coo_matrix((d, (r, c)), shape=shape, dtype=dtype)
    return out.asformat(format) if format else out


def vstack(blocks, format=None, dtype=None):
    return _stack(blocks, 0, format, dtype)


def hstack(blocks, format=None, dtype=None):
    return _stack(blocks, 1, format, dtype)


# ---------------------------------------------------------------- generic readers usable on model AND real scipy
def dense_terms(m):
    """dense list-of-lists of the values held by a sparse matrix (model or real scipy); duplicates summed.
    Written independently of the library accessors: it reads the representation arrays directly."""
    nr, nc = m.shape
    out = [[0.0] * nc for _ in range(nr)]
    fmt = m.format
    if fmt in ('csr', 'csc'):
        indptr, indices, data = m.indptr, m.indices, m.data
        for k in range(len(indptr) - 1):
            for p in range(int(indptr[k]), int(indptr[k + 1])):
                i, j = (k, int(indices[p])) if fmt == 'csr' else (int(indices[p]), k)
                v = data[p]
                v = v if core.is_sym(v) else float(v)
                out[i][j] = out[i][j] + v
    elif fmt == 'coo':
        for i, j, v in zip(m.row, m.col, m.data):
            v = v if core.is_sym(v) else float(v)
            out[int(i)][int(j)] = out[int(i)][int(j)] + v
    else:
        return dense_terms(m.tocoo())
    return out
