"""Nondeterministic stub of numpy's Generator for the calls biom makes (DESIGN.md 1.3).

Contract (what numpy guarantees, what the stub returns):
  choice(total, n, replace=False, shuffle=False): n pairwise distinct ints in [0, total)      (fresh Int variables)
  multinomial(n, pvals): non-negative ints summing to n, zero wherever pvals is zero          (fresh Int variables)
  shuffle(arr): some permutation of arr, in place                                             (forks over all permutations)
Uniformity of these draws and their dependence on the seed alone are properties of numpy and are trusted.
Any other use of randomness raises Unsupported.  In concrete replay mode the same stub hands out the
solver's values, so the real kernel/Table code is driven with a concrete, contract-satisfying RNG outcome.
"""
import itertools
import numpy as _np
from .. import core

LOG = []          # every generator created: (seed,), calls


class SortableDraw(_np.ndarray):
    """object array of draws; `.sort()` adds the ordering as a constraint instead of forking n! ways"""

    def sort(self, *a, **k):
        c = core.CTX
        vals = list(self)
        if c.mode == 'conc':
            vals.sort()
        else:
            # the sorted array is a permutation of the draws: introduce the order statistics
            n = len(vals)
            if n > 1:
                srt = [c.var(f"{self._tag}_s{i}", 'int') for i in range(n)]
                for i in range(n - 1):
                    c.solver.add(srt[i].z < srt[i + 1].z)        # distinct draws
                import z3
                # multiset equality for distinct values: each draw equals some order statistic and vice versa
                for v in vals:
                    c.solver.add(z3.Or(*[core._z(v) == s.z for s in srt]))
                for s in srt:
                    c.solver.add(z3.Or(*[core._z(v) == s.z for v in vals]))
                vals = srt
        for i, v in enumerate(vals):
            self[i] = v


class Generator:
    def __init__(self, seed=None):
        self.seed = seed
        self.calls = []
        self.draws = []
        self.k = 0
        LOG.append(self)

    def _name(self, what):
        self.k += 1
        return f"rng{len(LOG)}_{what}{self.k}"

    def choice(self, a, size=None, replace=True, p=None, axis=0, shuffle=True):
        c = core.CTX
        self.calls.append(('choice', replace, shuffle))
        if isinstance(a, (_np.ndarray, list, tuple)):
            raise core.Unsupported("rng.choice over an array")
        if replace or p is not None:
            raise core.Unsupported("rng.choice with replacement / weights")
        n = size
        if core.is_sym(n):
            raise core.Unsupported("symbolic sample size")
        n = int(n)
        tag = self._name('c')
        if not core.is_sym(a) and n > a:
            raise ValueError("Cannot take a larger sample than population when replace is False")
        if core.is_sym(a):
            c.assume(a >= n)
        out = _np.empty(n, dtype=object).view(SortableDraw)
        out._tag = tag
        draws = []
        for i in range(n):
            v = c.var(f"{tag}_{i}", 'int')
            c.assume(core.and_(v >= 0, v < a))
            for w in draws:
                c.assume(v != w)
            draws.append(v)
            out[i] = v
        self.draws.append(('choice', a, list(draws)))
        if c.mode == 'conc':
            return _np.array([int(v) for v in draws], dtype=_np.int64)
        return out

    def multinomial(self, n, pvals, size=None):
        c = core.CTX
        self.calls.append(('multinomial',))
        pv = list(pvals)
        if len(pv) == 0:
            raise ValueError("zero-size array to reduction operation maximum which has no identity")
        tag = self._name('m')
        out = _np.empty(len(pv), dtype=object)
        tot = 0
        for i, p in enumerate(pv):
            if not core.is_sym(p) and p == 0:
                out[i] = 0
                continue
            v = c.var(f"{tag}_{i}", 'int')
            c.assume(v >= 0)
            if core.is_sym(p):
                # pvals_i == 0  =>  draw_i == 0
                c.assume(core.or_(p != 0, v == 0))
            out[i] = v
            tot = tot + v
        c.assume(core.eq(tot, n) if c.mode == 'conc' else (tot == n))
        self.draws.append(('multinomial', n, list(out)))
        if c.mode == 'conc':
            return _np.array([int(v) for v in out], dtype=_np.int64)
        return out

    def shuffle(self, arr):
        c = core.CTX
        self.calls.append(('shuffle',))
        n = len(arr)
        perms = list(itertools.permutations(range(n)))
        p = perms[c.choice(len(perms), 'shuffle')]
        arr[:] = arr[list(p)]

    def __getattr__(self, k):
        raise core.Unsupported(f"Generator.{k} is not part of the modelled RNG contract")


def default_rng(seed=None):
    return Generator(seed)


def reset():
    del LOG[:]
