"""Differential validation of the library models against the real libraries (DESIGN.md 1.6).

Run at the start of every check.  A disagreement is a harness error (exit 2), never a VIOLATION.
"""
import random
import numpy as np
import scipy.sparse as sp
from . import sparse as M


class ModelMismatch(Exception):
    pass


def _rand_cs(rng, fmt, nr, nc, allow_unsorted=True, allow_zero=True, allow_dup=False):
    nmaj, nmin = (nr, nc) if fmt == 'csr' else (nc, nr)
    data, indices, indptr = [], [], [0]
    for _ in range(nmaj):
        cols = [j for j in range(nmin) if rng.random() < 0.6]
        if allow_dup and cols and rng.random() < 0.3:
            cols.append(rng.choice(cols))
        if allow_unsorted:
            rng.shuffle(cols)
        else:
            cols.sort()
        for j in cols:
            v = float(rng.choice([1, 2, 3, -1, 0.5, 7])) if not (allow_zero and rng.random() < 0.2) else 0.0
            data.append(v)
            indices.append(j)
        indptr.append(len(data))
    return data, indices, indptr


def _pair(fmt, d, i, p, shape):
    rcls = {'csr': sp.csr_matrix, 'csc': sp.csc_matrix}[fmt]
    mcls = {'csr': M.csr_matrix, 'csc': M.csc_matrix}[fmt]
    r = rcls((np.array(d, dtype=float), np.array(i, dtype=np.int32), np.array(p, dtype=np.int32)), shape=shape)
    m = mcls((list(d), list(i), list(p)), shape=shape)
    return r, m


def _same(tag, r, m):
    """compare representation of a real scipy matrix with a model matrix"""
    if r.format != m.format:
        raise ModelMismatch(f"{tag}: format {r.format} != {m.format}")
    if tuple(r.shape) != tuple(m.shape):
        raise ModelMismatch(f"{tag}: shape {r.shape} != {m.shape}")
    if r.format in ('csr', 'csc'):
        n = int(r.indptr[-1])
        a = (list(map(float, r.data[:n])), list(map(int, r.indices[:n])), list(map(int, r.indptr)))
        b = (list(map(float, m.data)), list(map(int, m.indices)), list(map(int, m.indptr)))
    else:
        a = (list(map(float, r.data)), list(map(int, r.row)), list(map(int, r.col)))
        b = (list(map(float, m.data)), list(map(int, m.row)), list(map(int, m.col)))
    if a != b:
        raise ModelMismatch(f"{tag}: representation differs\n real  {a}\n model {b}")


def _same_dense(tag, r, m):
    a = np.asarray(r, dtype=float)
    b = np.asarray(m, dtype=float)
    if a.shape != b.shape or not np.array_equal(a, b):
        raise ModelMismatch(f"{tag}: dense differs\n real  {a.tolist()}\n model {b.tolist()}")


def validate_sparse(seed=0, rounds=60):
    rng = random.Random(seed)
    n = 0
    for it in range(rounds):
        fmt = rng.choice(['csr', 'csc'])
        nr, nc = rng.randint(1, 3), rng.randint(1, 4)
        dup = it % 5 == 0
        d, i, p = _rand_cs(rng, fmt, nr, nc, allow_dup=dup)
        r, m = _pair(fmt, d, i, p, (nr, nc))
        _same('ctor', r, m)
        _same('tocsr', r.tocsr(), m.tocsr())
        _same('tocsc', r.tocsc(), m.tocsc())
        _same('tocoo', r.tocoo(), m.tocoo())
        if r.nnz:
            rc0, mc0 = r.tocoo(copy=False), m.tocoo(copy=False)
            rmin, mmin = (rc0.col, mc0.col) if fmt == 'csr' else (rc0.row, mc0.row)
            rmaj, mmaj = (rc0.row, mc0.row) if fmt == 'csr' else (rc0.col, mc0.col)
            if (np.shares_memory(rc0.data, r.data), np.shares_memory(rmin, r.indices), np.shares_memory(rmaj, r.indices)) != \
                    (np.shares_memory(mc0.data, m.data), np.shares_memory(mmin, m.indices), np.shares_memory(mmaj, m.indices)):
                raise ModelMismatch('tocoo(copy=False) aliasing')
            if np.shares_memory(r.tocoo().data, r.data) != np.shares_memory(m.tocoo().data, m.data) or \
                    np.shares_memory(r.tocoo(copy=True).data, r.data) or np.shares_memory(m.tocoo(copy=True).data, m.data):
                raise ModelMismatch('tocoo() aliasing')
        if (r.tocsr() is r) != (m.tocsr() is m) or (r.tocsc() is r) != (m.tocsc() is m):
            raise ModelMismatch("tocsr/tocsc identity")
        _same('tocoo.tocsr', r.tocoo().tocsr(), m.tocoo().tocsr())
        _same('tocoo.tocsc', r.tocoo().tocsc(), m.tocoo().tocsc())
        _same('astype', r.astype(float), m.astype(float))
        # formats that are only ever converted: what their tocsr() yields
        _same('lil.tocsr', sp.lil_matrix(r.copy()).tocsr(), M.lil_matrix(m).tocsr())       # (some scipy conversions sort their source in place)
        _same('dok.tocsr', sp.dok_matrix(r.copy()).tocsr(), M.dok_matrix(m).tocsr())
        for bs in (() if dup else ((1, 1), (nr, nc), (1, nc), (nr, 1))):
            _same(f'bsr{bs}.tocsr', sp.bsr_matrix(r.copy(), blocksize=bs).tocsr(), M.bsr_matrix(m, blocksize=bs).tocsr())
        _same('copy', r.copy(), m.copy())
        _same('T', r.T, m.T)
        _same('transpose(copy)', r.transpose(copy=True), m.transpose(copy=True))
        if r.nnz and np.shares_memory(r.transpose().data, r.data) != (m.transpose().data is m.data):
            raise ModelMismatch("transpose aliasing")
        if np.shares_memory(r.transpose(copy=True).data, r.data) or (m.transpose(copy=True).data is m.data):
            raise ModelMismatch("transpose(copy=True) aliasing")
        if np.shares_memory(r.astype(float).data, r.data):
            raise ModelMismatch("real astype aliases (model assumes copy)")
        if (r.astype(float, copy=False) is r) != (m.astype(float, copy=False) is m):
            raise ModelMismatch("astype(copy=False) identity")
        _same_dense('toarray', r.toarray(), m.toarray())
        _same_dense('dense_terms', r.toarray(), M.dense_terms(m))
        _same_dense('dense_terms(real)', r.toarray(), M.dense_terms(r))
        for ax in (None, 0, 1):
            _same_dense(f'sum{ax}', np.asarray(r.sum(axis=ax)), np.asarray(m.sum(axis=ax), dtype=float))
        if r.nnz != m.nnz:
            raise ModelMismatch("nnz")
        if r.has_sorted_indices != m.has_sorted_indices:
            raise ModelMismatch("has_sorted_indices")
        for k in range(nr):
            _same(f'getrow{k}', r.getrow(k), m.getrow(k))
        for k in range(nc):
            _same(f'getcol{k}', r.getcol(k), m.getcol(k))
        for a in range(nr):
            for b in range(nc):
                if float(r[a, b]) != float(m[a, b]):
                    raise ModelMismatch(f"scalar getitem [{a},{b}]: {r[a, b]} vs {m[a, b]}")
        if not dup:
            perm_r = list(range(nr)); rng.shuffle(perm_r)
            perm_c = list(range(nc)); rng.shuffle(perm_c)
            sub_r = perm_r[:rng.randint(1, nr)]
            sub_c = perm_c[:rng.randint(1, nc)]
            _same('rowfancy', r[np.array(sub_r), :], m[np.array(sub_r), :])
            _same('colfancy', r[:, np.array(sub_c)], m[:, np.array(sub_c)])
        r2, m2 = r.copy(), m.copy()
        r2.eliminate_zeros(); m2.eliminate_zeros()
        _same('eliminate_zeros', r2, m2)
        r2, m2 = r.copy(), m.copy()
        r2.sort_indices(); m2.sort_indices()
        _same('sort_indices', r2, m2)
        _same('div', r / 2.0, m / 2.0)
        # second operand for binary ops
        d2, i2, p2 = _rand_cs(rng, fmt, nr, nc)
        rb, mb = _pair(fmt, d2, i2, p2, (nr, nc))
        ne_r, ne_m = (r.tocsr() != rb.tocsr()), (m.tocsr() != mb.tocsr())
        if ne_r.nnz != ne_m.nnz:
            raise ModelMismatch(f"!= nnz {ne_r.nnz} vs {ne_m.nnz}")
        for f1 in ('csr', 'csc'):
            for f2 in ('csr', 'csc'):
                _same(f'vstack {f1},{f2}', sp.vstack([r.asformat(f1), rb.asformat(f2)]),
                      M.vstack([m.asformat(f1), mb.asformat(f2)]))
                _same(f'hstack {f1},{f2}', sp.hstack([r.asformat(f1), rb.asformat(f2)]),
                      M.hstack([m.asformat(f1), mb.asformat(f2)]))
        zr, zm = sp.csr_matrix((2, nc)), M.csr_matrix((2, nc))
        _same('vstack zero', sp.vstack([r, zr]), M.vstack([m, zm]))
        _same('vstack float32', sp.vstack([r, zr], format='csr', dtype=np.float32), M.vstack([m, zm], format='csr', dtype=np.float32))
        _same('astype float32', r.astype(np.float32), m.astype(np.float32))
        _same_dense('matmul', (r @ r.T).toarray(), (m @ m.T).toarray())
        _same_dense('add', (r + r.tocsc().tocsr()).toarray(), (m + m.tocsc().tocsr()).toarray())
        _same_dense('sub', (r - r.T.T * 2).toarray(), (m - m.T.T * 2).toarray())
        if (r - r).nnz != (m - m).nnz or (r - r).format != (m - m).format:
            raise ModelMismatch('x - x: stored entries / format')
        _same_dense('matmul csc', (r.tocsc() @ r.T.tocsr()).toarray(), (m.tocsc() @ m.T.tocsr()).toarray())
        zr, zm = sp.csr_matrix((nr, 2)), M.csr_matrix((nr, 2))
        _same('hstack zero', sp.hstack([r, zr]), M.hstack([m, zm]))
        # coo construction from triples with duplicates / dense
        k = rng.randint(0, 5)
        rows = [rng.randrange(nr) for _ in range(k)]
        cols = [rng.randrange(nc) for _ in range(k)]
        vals = [float(rng.choice([0, 1, 2, -3])) for _ in range(k)]
        rc = sp.coo_matrix((vals, (rows, cols)), shape=(nr, nc))
        mc = M.coo_matrix((vals, (rows, cols)), shape=(nr, nc))
        _same('coo ctor', rc, mc)
        _same('coo.tocsr', rc.tocsr(), mc.tocsr())
        _same('coo.tocsc', rc.tocsc(), mc.tocsc())
        dense = [[float(rng.choice([0, 0, 1, 5])) for _ in range(nc)] for _ in range(nr)]
        _same('coo dense', sp.coo_matrix(dense), M.coo_matrix(dense))
        _same('coo nd', sp.coo_matrix(np.array(dense)), M.coo_matrix(np.array(dense)))
        # dok accumulate
        rd, md = sp.dok_matrix((nr, nc), dtype=float), M.dok_matrix((nr, nc), dtype=float)
        for a, b, v in zip(rows, cols, vals):
            rd[a, b] += v
            md[a, b] += v
        _same('csr(dok.T)', sp.csr_matrix(rd.T), M.csr_matrix(md.T))
        _same('csc(dok)', sp.csc_matrix(rd), M.csc_matrix(md))
        _same('dok.tocsr (insertion order)', rd.tocsr(), md.tocsr())
        _same('dok.tocsc', rd.tocsc(), md.tocsc())
        _same('lil(dok)', sp.lil_matrix(rd).tocsr(), M.lil_matrix(md).tocsr())
        n += 1
    return n


if __name__ == '__main__':
    print(validate_sparse(0, 200))


# ------------------------------------------------------------------ .pyx translation vs the compiled extension
def _load_translated(name, repo):
    import os, types
    from .. import pyx2py
    src = pyx2py.translate(open(os.path.join(repo, 'biom', name + '.pyx')).read())
    mod = types.ModuleType('sx_plain_' + name)
    exec(compile(src, os.path.join(repo, 'biom', name + '.pyx'), 'exec'), mod.__dict__)
    return mod


def validate_pyx(seed=0, rounds=40, repo=None):
    """run the Python rendering of the three kernels and the compiled .so on the same concrete inputs"""
    import os, sys, importlib
    repo = repo or os.environ.get('VERIF_REPO', '/repo')
    if repo not in sys.path:
        sys.path.insert(0, repo)
    rng = random.Random(seed)
    so_f = importlib.import_module('biom._filter')
    so_t = importlib.import_module('biom._transform')
    so_s = importlib.import_module('biom._subsample')
    if not so_f.__file__.endswith('.so'):
        raise ModelMismatch("biom._filter is not the compiled extension: " + so_f.__file__)
    py_f, py_t, py_s = (_load_translated(n, repo) for n in ('_filter', '_transform', '_subsample'))
    n = 0

    def rep(m):
        k = int(m.indptr[-1])
        return (m.format, tuple(m.shape), list(map(float, m.data[:k])), list(map(int, m.indices[:k])), list(map(int, m.indptr)))

    for it in range(rounds):
        nr, nc = rng.randint(1, 4), rng.randint(1, 4)
        fmt = rng.choice(['csr', 'csc'])
        sorted_only = it % 2 == 0
        d, i, p = _rand_cs(rng, fmt, nr, nc, allow_unsorted=not sorted_only)
        cls = sp.csr_matrix if fmt == 'csr' else sp.csc_matrix
        def mk():
            return cls((np.array(d, dtype=float), np.array(i, dtype=np.int32), np.array(p, dtype=np.int32)), shape=(nr, nc))
        for axis in (0, 1):
            nids = nr if axis == 0 else nc
            ids = np.array(['id%d' % k for k in range(nids)])
            md = tuple({'k': k} for k in range(nids)) if it % 3 else None
            index = {x: k for k, x in enumerate(ids)}
            keep_ids = [x for x in ids if rng.random() < 0.5]
            seen = []
            def pred(v, id_, m):
                seen.append((v.tolist(), str(id_), m))
                return v.sum() > 1 or str(id_).endswith('0')
            for keep in (keep_ids, pred):
                for invert in (False, True):
                    outs = []
                    for impl in (so_f._filter, py_f._filter):
                        del seen[:]
                        a, oi, om = impl(mk(), ids, md, index, keep, axis, invert)
                        outs.append((rep(a), list(oi), om, list(seen)))
                    if outs[0] != outs[1]:
                        raise ModelMismatch(f"_filter translation differs from .so: {outs[0]} vs {outs[1]}")
                    n += 1
            # transform: needs csr for axis 0, csc for axis 1
            outs = []
            for impl in (so_t._transform, py_t._transform):
                a = mk().tocsr() if axis == 0 else mk().tocsc()
                a = a.copy()
                impl(a, ids, md, lambda v, i_, m_: v * 2 + (1 if str(i_).endswith('1') else 0), axis)
                outs.append(rep(a))
            if outs[0] != outs[1]:
                raise ModelMismatch(f"_transform translation differs from .so: {outs}")
            n += 1
        # subsample on count data
        dd = [float(rng.choice([0, 1, 2, 5, 9])) for _ in d]
        for wr in (False, True):
            for nn in (1, 3, 7):
                outs = []
                for impl in (so_s.subsample, py_s.subsample):
                    a = cls((np.array(dd, dtype=float), np.array(i, dtype=np.int32), np.array(p, dtype=np.int32)), shape=(nr, nc))
                    try:
                        impl(a, nn, wr, np.random.default_rng(it))
                        outs.append(rep(a))
                    except ValueError as e:
                        outs.append('ValueError')
                if outs[0] != outs[1]:
                    raise ModelMismatch(f"subsample translation differs from .so (n={nn}, replace={wr}): {outs}")
                n += 1
    return n


def validate_h5(seed=0):
    """the store model against real h5py (in-memory core driver) for the calls biom makes"""
    import h5py
    from . import h5 as H
    real = h5py.File('sx-validate.h5', 'w', driver='core', backing_store=False)
    model = H.File()
    vl = h5py.special_dtype(vlen=str)
    n = 0
    for f, V in ((real, vl), (model, H.VLEN_STR)):
        f.attrs['id'] = 'No Table ID'
        f.attrs['shape'] = (2, 3)
        f.attrs['nnz'] = 4
        g = f.create_group('observation')
        g.create_group('metadata')
        g.create_dataset('ids', shape=(2,), dtype=V, data=[b'a', 'é'.encode('utf8')], compression='gzip')
        g.create_dataset('metadata/tax', shape=(2, 2), dtype=V,
                         data=np.array([[b'k', b''], [b'p', b'q']], dtype=object))
        g.create_dataset('metadata/num', shape=(2,), dtype=None, data=[1.5, 2.0])
        g.create_dataset('matrix/data', shape=(3,), dtype=np.float64, data=np.array([1., 2., 3.]))
        g.create_dataset('matrix/indices', shape=(3,), dtype=np.int32, data=np.array([0, 2, 1]))
        g.create_dataset('empty', shape=(0,), data=[])
        ds = g.create_dataset('group-metadata/tree', shape=(1,), dtype=V, data='((a,b));')
        ds.attrs['data_type'] = 'newick'
    def norm(x):
        if isinstance(x, np.ndarray):
            return [norm(v) for v in x.tolist()]
        if isinstance(x, (list, tuple)):
            return [norm(v) for v in x]
        if isinstance(x, np.generic):
            return x.item()
        return x
    for path in ('observation/ids', 'observation/metadata/tax', 'observation/metadata/num', 'observation/matrix/data',
                 'observation/matrix/indices', 'observation/empty', 'observation/group-metadata/tree'):
        a, b = norm(real[path][:]), norm(model[path][:])
        if a != b or type(real[path][:]) is not type(model[path][:]):
            raise ModelMismatch(f"h5 {path}: real {a!r} model {b!r}")
        n += 1
    for k in ('id', 'shape', 'nnz'):
        a, b = norm(real.attrs[k]), norm(model.attrs[k])
        if a != b:
            raise ModelMismatch(f"h5 attr {k}: real {a!r} ({type(real.attrs[k])}) model {b!r}")
        n += 1
    if type(real.attrs['id']) is not type(model.attrs['id']):
        raise ModelMismatch("h5 attr string type")
    if norm(real['observation/group-metadata/tree'][0]) != norm(model['observation/group-metadata/tree'][0]):
        raise ModelMismatch("h5 scalar-payload dataset")
    if sorted(real['observation'].keys()) != sorted(model['observation'].keys()):
        raise ModelMismatch("h5 group keys")
    if [k for k, _ in real['observation/metadata'].items()] != [k for k, _ in model['observation/metadata'].items()]:
        raise ModelMismatch("h5 items order")
    for bad in (lambda f: f.create_dataset('x1', shape=(3,), dtype=np.float64, data=np.array([1., 2.])),
                lambda f: f['nope'], lambda f: f.create_group('observation')):
        outs = []
        for f in (real, model):
            try:
                bad(f)
                outs.append('ok')
            except Exception as e:      # noqa
                outs.append('raise')
        if outs[0] != outs[1]:
            raise ModelMismatch(f"h5 error behaviour differs: {outs}")
        n += 1
    # fixed-width byte strings cut what does not fit
    for f in (real, model):
        f.create_dataset('fixedw', shape=(3,), dtype='S3', data=[b'abcdef', 'caf\u00e9'.encode('utf8'), b'x'])
    if [bytes(x) for x in real['fixedw'][:]] != [bytes(x) for x in model['fixedw'][:]]:
        raise ModelMismatch(f"h5 fixed-width strings: {list(real['fixedw'][:])} vs {list(model['fixedw'][:])}")
    n += 1
    # mixed element kinds without a declared dtype: numpy's coercion decides (numbers next to bytes become fixed-width text)
    for k, payload in enumerate(([b'', 1, 12], [b'x', 2.5], ['a', 3], [b'', None])):
        outs = []
        for f in (real, model):
            try:
                ds = f.create_dataset('mixed%d' % k, shape=(len(payload),), dtype=None, data=payload)
                outs.append(('ok', [norm(x) for x in ds[:]]))
            except Exception as e:      # noqa
                outs.append(('raise', type(e).__name__))
        if outs[0] != outs[1]:
            raise ModelMismatch(f"h5 mixed payload {payload!r}: {outs}")
        n += 1
    # a closed file: same exception types for the same calls, falsy, contains nothing
    real.close()
    model.close()
    for probe in (lambda f: f['observation'], lambda f: f.attrs['shape'], lambda f: f.create_group('g9'), lambda f: bool(f),
                  lambda f: 'observation' in f, lambda f: list(f.keys())):
        outs = []
        for f in (real, model):
            try:
                outs.append(('ok', probe(f)))
            except Exception as e:      # noqa
                outs.append(('raise', type(e).__name__))
        if outs[0] != outs[1]:
            raise ModelMismatch(f"h5 closed-file behaviour differs: {outs}")
        n += 1
    with h5py.File('sx-validate2.h5', 'w', driver='core', backing_store=False) as r2, H.File() as m2:
        r2.attrs['shape'] = (1, 2)
        m2.attrs['shape'] = (1, 2)
    if bool(r2) != bool(m2):
        raise ModelMismatch("h5: leaving a with-block closes the file")
    n += 1
    return n


def validate_instrumentation(repo=None):
    """the repository's own test suite, run against the AST-instrumented modules (real libraries): must all pass"""
    import os, re, subprocess, sys
    repo = repo or os.environ.get('VERIF_REPO', '/repo')
    root = os.path.dirname(os.path.dirname(os.path.dirname(os.path.abspath(__file__))))
    env = dict(os.environ, PYTHONPATH=root + os.pathsep + repo, VERIF_REPO=repo)
    def suite(targets):
        return subprocess.run([sys.executable, '-m', 'pytest', '-q', '-p', 'no:cacheprovider', '-p', 'sx.instr_plugin', '-rf'] + targets,
                              cwd=repo, env=env, capture_output=True, text=True, timeout=1200)
    p = suite(['biom/tests'])
    tail = (p.stdout.strip().splitlines() or [''])[-1]
    m = re.search(r'(\d+) passed', tail)
    failed = re.search(r'(\d+) failed', tail)
    if m and failed and 'error' not in tail.lower():
        # the suite has (at least) one unseeded random test (SparseTableTests::test_subsample fails about once in twenty runs on the
        # unchanged tree, instrumented or not): a test that fails here must fail again, twice, on its own to count
        ids = re.findall(r'^FAILED (\S+)', p.stdout, re.M)
        still = [t for t in ids if all(suite([t]).returncode != 0 for _ in range(2))]
        if ids and not still:
            return int(m.group(1)) + len(ids)
        tail += ' -- failing again on their own: ' + ', '.join(still or ['(could not identify the failing tests)'])
    if not m or failed or 'error' in tail.lower():
        raise ModelMismatch(f"repository test suite through the instrumenting loader: {tail}")
    return int(m.group(1))


def run_all(seed=0, tier='quick'):
    import time
    t = time.time()
    out = {'sparse_rounds': validate_sparse(seed, 40), 'pyx_cases': validate_pyx(seed, 16), 'h5_cases': validate_h5(seed)}
    if tier == 'thorough':
        out['repo_tests_passing_through_instrumenting_loader'] = validate_instrumentation()
    out['wall_s'] = round(time.time() - t, 2)
    return out
