"""scipy.stats.rankdata on vectors holding symbolic numbers (DESIGN.md 1.3).

Contract: the standard rank definitions for the five tie methods.  Comparisons between symbolic values fork
(each path fixes one weak ordering of the values), so the returned ranks are exact terms on every path.
On concrete arrays the real scipy implementation runs.
"""
import numpy as np
from .. import core


def rankdata(a, method='average', **kw):
    arr = np.asarray(a)
    if arr.dtype != object or not any(core.is_sym(v) for v in arr.reshape(-1)):
        return _real(np.asarray(arr, dtype=float) if arr.dtype == object else arr, method=method, **kw)
    if kw:
        raise core.Unsupported("rankdata keyword " + str(kw))
    vals = list(arr.reshape(-1))
    n = len(vals)
    out = np.empty(n, dtype=object)
    for i in range(n):
        less = sum(1 for j in range(n) if j != i and bool(vals[j] < vals[i]))
        equal = sum(1 for j in range(n) if j != i and bool(vals[j] == vals[i]))
        if method == 'min':
            r = less + 1
        elif method == 'max':
            r = less + equal + 1
        elif method == 'average':
            r = less + (equal + 2) / 2.0
        elif method == 'ordinal':
            r = less + 1 + sum(1 for j in range(i) if bool(vals[j] == vals[i]))
        elif method == 'dense':
            distinct = []
            for j in range(n):
                if bool(vals[j] < vals[i]) and not any(bool(vals[j] == d) for d in distinct):
                    distinct.append(vals[j])
            r = len(distinct) + 1
        else:
            raise ValueError(f'unknown method "{method}"')
        out[i] = float(r)
    return out


_real = None


def install():
    global _real
    import scipy.stats
    if _real is None:
        _real = scipy.stats.rankdata
        scipy.stats.rankdata = rankdata
