"""In-memory model of the h5py subset biom uses (DESIGN.md 1.3): groups, datasets, attrs.

Contract (trusted): HDF5 stores numeric arrays and byte strings faithfully; a dataset created with an
explicit `shape` must receive a payload of that shape; a declared integer dtype truncates, float64 is
exact; variable-length string datasets hand back `bytes` objects on read (h5py 3 behaviour), string
attributes come back as `str`.  Encoding subtleties, NUL handling, compression filters and file sniffing
of the real library are outside the claim.  `install()` puts this module in `sys.modules['h5py']` so that
every `import h5py` inside biom resolves to it (sym mode only).
"""
import sys
import numpy as np
from .. import core


class _VlenStr:
    def __init__(self, encoding='utf-8'):
        self.encoding = encoding

    def __repr__(self):
        return "H5PY_VLEN_STR(%s)" % self.encoding


VLEN_STR = _VlenStr()


def special_dtype(vlen=None):
    if vlen is not None:
        return VLEN_STR
    raise core.Unsupported("special_dtype")


def string_dtype(encoding='utf-8', length=None):
    if length is not None:
        raise core.Unsupported("fixed-length string dtype")
    if encoding not in ('utf-8', 'ascii'):
        raise ValueError("Invalid encoding (%r); 'utf-8' or 'ascii' required" % (encoding,))
    return VLEN_STR if encoding == 'utf-8' else _VlenStr('ascii')


class Attrs(dict):
    def __setitem__(self, k, v):
        if isinstance(v, tuple):
            v = np.asarray(v)
        elif isinstance(v, bytes):
            pass
        elif v is None:
            raise TypeError("Object dtype dtype('O') has no native HDF5 equivalent")
        dict.__setitem__(self, k, v)


class Dataset:
    def __init__(self, name, data, shape, dtype, compression=None):
        self.name = name
        self.attrs = Attrs()
        self.dtype = dtype
        self.compression = compression
        self.creation = {'shape': None if shape is None else tuple(shape), 'dtype': dtype,
                         'compression': compression}
        if isinstance(data, (str, bytes)):
            arr = np.empty(1, dtype=object)
            arr[0] = data
            if shape is not None and tuple(shape) != (1,):
                raise ValueError("scalar payload into shape %r" % (shape,))
        elif isinstance(data, np.ndarray):
            arr = data.copy()
        elif data is None:
            arr = np.zeros(shape, dtype=object if isinstance(dtype, _VlenStr) or dtype is None else dtype)
        else:
            data = list(data)
            arr = np.empty(len(data), dtype=object)
            for i, v in enumerate(data):
                arr[i] = v
            if dtype is None and data and all(isinstance(v, (int, float, bool, np.number, np.bool_)) for v in data):
                arr = np.asarray(data)
            elif dtype is None and data and not all(isinstance(v, (bytes, str)) for v in data):
                if any(core.is_sym(v) for v in data):
                    raise core.Unsupported("symbolic value in a dataset of mixed element kinds")
                # what numpy makes of a mixed list is what h5py stores: numbers next to text become fixed-width text
                coerced = np.asarray(data)
                if coerced.dtype.kind == 'S':
                    arr = np.empty(len(data), dtype=object)
                    for i, v in enumerate(coerced):
                        arr[i] = bytes(v)
                elif coerced.dtype.kind == 'U':
                    raise TypeError("No conversion path for dtype: dtype('<U%d')" % (coerced.dtype.itemsize // 4))
                elif coerced.dtype == object:
                    raise TypeError("Object dtype dtype('O') has no native HDF5 equivalent")
                else:
                    arr = coerced
        if shape is not None and tuple(arr.shape) != tuple(shape):
            raise ValueError("Shape tuple is incompatible with data: %r vs %r" % (tuple(shape), arr.shape))
        if isinstance(dtype, _VlenStr):
            out = np.empty(arr.shape, dtype=object)
            for idx in np.ndindex(arr.shape):
                v = arr[idx]
                if isinstance(v, str):
                    v = v.encode(dtype.encoding)       # UnicodeEncodeError for an ascii dtype, as h5py
                if not isinstance(v, bytes):
                    raise TypeError("vlen str dataset needs str/bytes, got %r" % type(v))
                out[idx] = v
            arr = out
        elif dtype is not None and arr.dtype == object:
            kind = np.dtype(dtype).kind
            for idx in np.ndindex(arr.shape):
                v = arr[idx]
                if isinstance(v, core.SNum):
                    if kind in 'iu' and not v.isint:
                        raise core.Unsupported("symbolic real stored with integer dtype (truncation)")
                    if kind == 'f' and np.dtype(dtype).itemsize < 8:
                        raise core.Unsupported("symbolic value stored as float32 (lossy)")
                elif kind in 'iu':
                    arr[idx] = int(v)
                elif kind == 'f':
                    arr[idx] = float(np.dtype(dtype).type(v))
                elif kind == 'S':
                    # fixed-width byte strings: numpy cuts what does not fit, silently
                    if isinstance(v, str):
                        v = v.encode('utf8')
                    if not isinstance(v, bytes):
                        raise TypeError("fixed-width string dataset needs str/bytes, got %r" % type(v))
                    arr[idx] = bytes(np.asarray(v, dtype=dtype)[()])       # element access strips the padding, as a read does
        elif dtype is not None:
            arr = arr.astype(dtype)
        self._a = arr

    @property
    def shape(self):
        return self._a.shape

    @property
    def size(self):
        return self._a.size

    def __len__(self):
        if self._a.ndim == 0:
            raise TypeError("Attempt to take len() of scalar dataset")
        return len(self._a)

    def __getitem__(self, k):
        r = self._a[k]
        return r.copy() if isinstance(r, np.ndarray) else r

    def __iter__(self):
        return iter(self._a.copy())

    def __array__(self, dtype=None, copy=None):
        return self._a.copy() if dtype is None else self._a.astype(dtype)


class Group:
    def __init__(self, name='/'):
        self._c = {}
        self.attrs = Attrs()
        self.name = name

    def _walk(self, path, create=False):
        node = self
        parts = [p for p in path.split('/') if p]
        if not parts:
            raise ValueError("empty path")
        for p in parts[:-1]:
            if p not in node._c:
                if not create:
                    raise KeyError("Unable to open object (component not found): %s" % path)
                node._c[p] = Group(node.name.rstrip('/') + '/' + p)
            node = node._c[p]
            if not isinstance(node, Group):
                raise KeyError(path)
        return node, parts[-1]

    def create_group(self, name):
        node, leaf = self._walk(name, True)
        if leaf in node._c:
            raise ValueError("Unable to create group (name already exists)")
        node._c[leaf] = Group(node.name.rstrip('/') + '/' + leaf)
        return node._c[leaf]

    def create_dataset(self, name, shape=None, dtype=None, data=None, compression=None, **kw):
        node, leaf = self._walk(name, True)
        if leaf in node._c:
            raise ValueError("Unable to create dataset (name already exists)")
        if shape is None and data is None:
            raise TypeError("One of data, shape or dtype must be specified")
        ds = Dataset(node.name.rstrip('/') + '/' + leaf, data, shape, dtype, compression)
        node._c[leaf] = ds
        return ds

    def __getitem__(self, path):
        node, leaf = self._walk(path)
        if leaf not in node._c:
            raise KeyError("Unable to open object (object '%s' doesn't exist)" % leaf)
        return node._c[leaf]

    def __delitem__(self, path):
        node, leaf = self._walk(path)
        del node._c[leaf]

    def __contains__(self, path):
        try:
            self[path]
            return True
        except KeyError:
            return False

    def get(self, path, default=None):
        try:
            return self[path]
        except KeyError:
            return default

    def items(self):
        return sorted(self._c.items())       # h5py iterates in name order by default

    def keys(self):
        return sorted(self._c)

    def values(self):
        return [v for _, v in self.items()]

    def __iter__(self):
        return iter(self.keys())

    def __len__(self):
        return len(self._c)

    def close(self):
        pass

    def __enter__(self):
        return self

    def __exit__(self, *a):
        return False


class File(Group):
    """a file is usable until it is closed (explicitly or by leaving a `with` block), like h5py's"""

    def __init__(self, *a, **k):
        self._closed = False
        Group.__init__(self, '/')

    def _alive(self):
        if self._closed:
            raise KeyError("Unable to synchronously open object (invalid identifier type to function): the file is closed")

    @property
    def attrs(self):
        self._alive()
        return self._attrs

    @attrs.setter
    def attrs(self, v):
        self._attrs = v

    def __getitem__(self, path):
        self._alive()
        return Group.__getitem__(self, path)

    def create_group(self, name):
        if self._closed:
            raise ValueError("Unable to synchronously create group (invalid identifier type to function)")
        return Group.create_group(self, name)

    def create_dataset(self, name, *a, **k):
        if self._closed:
            raise ValueError("Unable to synchronously create dataset (invalid identifier type to function)")
        return Group.create_dataset(self, name, *a, **k)

    def __contains__(self, path):
        return (not self._closed) and Group.__contains__(self, path)

    def keys(self):
        if self._closed:
            raise ValueError("Invalid group (or file) id (invalid group (or file) ID)")
        return Group.keys(self)

    def __bool__(self):
        return not self._closed

    def close(self):
        self._closed = True

    def __exit__(self, *a):
        self.close()
        return False


def is_hdf5(fp):
    return isinstance(fp, Group)


def install():
    mod = sys.modules[__name__]
    sys.modules['h5py'] = mod
    return mod


def dump(node, prefix=''):
    """flat, comparable description of a store (used for compress on/off equality and by decoders)"""
    out = {}
    for k, v in node.attrs.items():
        out[prefix + '@' + k] = v.tolist() if isinstance(v, np.ndarray) else v
    if isinstance(node, Group):
        for k, v in node._c.items():
            out.update(dump(v, prefix + '/' + k))
            if isinstance(v, Group):
                out[prefix + '/' + k + '/'] = 'group'
    else:
        out[prefix] = ('dataset', repr(node.dtype), node._a.shape, [v for v in node._a.reshape(-1)])
    return out
