"""CrossHair conditions for C14: the raw-text JSON slicer behind `biom subset-table` equals parse-then-filter,
for every JSON serialisation of the document (compact, spaced, indented) and every ID subset.

Documents are written by the real Table.to_json and re-serialised with the separators / indentation chosen by a
symbolic selector; the subset is a symbolic bit mask over the axis; the axis is a symbolic selector.
"""
import json
import os
import sys

REPO = os.environ.get('VERIF_REPO', '/repo')
if REPO not in sys.path:
    sys.path.insert(0, REPO)

import numpy as np                                   # noqa: E402
from biom import Table                               # noqa: E402
from biom.cli.table_subsetter import _subset_table   # noqa: E402

SERIALISATIONS = [
    ('as-written', None),
    ('compact', dict(separators=(',', ':'))),
    ('spaced', dict(separators=(', ', ': '))),
    ('indent-2', dict(indent=2)),
    ('indent-tab', dict(indent='\t')),
    ('sorted-keys', dict(sort_keys=True)),
]


def _table(which):
    if which == 0:      # small, with empty vectors and metadata
        d = np.array([[0, 1.5, 0, 2], [3, 0, 0, 4], [0, 0, 0, 0]])
        return Table(d, ['b10', 'b9', 'c c'], ['S2', 'S10', 'z', 'y-q'],
                     [{'taxonomy': ['k__A', 'p__B']}, {'taxonomy': ['k__C']}, {'taxonomy': ['x']}],
                     [{'env': 'a'}, {'env': 'b, c'}, {'env': 'd:e'}, {'env': 'f'}], type='OTU table')
    if which == 3:      # no table type: the document carries the literals null (type) next to strings and numbers
        d = np.array([[0, -1.5, 0], [3, 0, 1e-7]])
        return Table(d, ['b10', 'b9'], ['S2', 'S10', 'z'], [{'taxonomy': ['k__A']}, {'taxonomy': None}],
                     [{'env': None, 'ok': True}, {'env': 'b', 'ok': False}, {'env': 'c', 'ok': None}])
    if which == 2:      # brackets, braces and quotes inside ids / metadata strings
        d = np.array([[0, 1.5, 0, 2], [3, 0, 0, 4], [0, 0, 0, 0]])
        return Table(d, ['b10', 'b9', 'c]c'], ['S2', 'S10', 'z', 'y"q'],
                     [{'taxonomy': ['k__A', 'p__B']}, {'taxonomy': ['k__C']}, {'taxonomy': ['x']}],
                     [{'env': 'a'}, {'env': 'b, c'}, {'env': '[1,2]'}, {'env': '}{'}], type='OTU table')
    # more than ten entries on both axes: positions with different digit counts
    n, m = 12, 11
    d = np.array([[(i * m + j + 1) if (i + 2 * j) % 3 else 0 for j in range(m)] for i in range(n)], dtype=float)
    return Table(d, ['o%d' % i for i in range(n)], ['s%d' % j for j in range(m)], type='OTU table')


# everything that does not depend on the symbolic selectors is computed once, at import time (a lazily filled cache
# would make executions differ between CrossHair iterations)
_TABLES = {w: _table(w) for w in (0, 1, 2, 3)}
_DOCS = {}
for _w in (0, 1, 2, 3):
    _text = _TABLES[_w].to_json('verif')
    for _k, (_n, _kw) in enumerate(SERIALISATIONS):
        _DOCS[(_w, _k)] = _text if _kw is None else json.dumps(json.loads(_text), **_kw)


def _doc(which, ser):
    return _DOCS[(which, ser)]


def _content(t):
    return ([str(x) for x in t.ids(axis='observation')], [str(x) for x in t.ids()], t.matrix_data.toarray().tolist(),
            None if t.metadata(axis='observation') is None else [dict(m) for m in t.metadata(axis='observation')],
            None if t.metadata() is None else [dict(m) for m in t.metadata()])


def _check(which, ser, axis_sel, keep_positions):
    axis = 'observation' if axis_sel == 0 else 'sample'
    t = _TABLES[which]
    ids = [str(t.ids(axis=axis)[k]) for k in keep_positions]
    text = _doc(which, ser)
    pieces, fmt = _subset_table(None, text, axis, ids)
    sliced = Table.from_json(json.loads(''.join(pieces)))
    ref = Table.from_json(json.loads(text)).filter(ids, axis=axis, inplace=False)
    return _content(sliced) == _content(ref)


# scipy memoises _sputils.upcast in a module-level dict keyed by hash(args); under CrossHair that hash is a proxy value, the
# dict fills with symbolic keys during the first iterations and later iterations take different paths (NotDeterministic).
# The memo is an optimisation only: switch it off for the analysis.
class _NoMemo(dict):
    def get(self, k, d=None):
        return d

    def __setitem__(self, k, v):
        pass


try:
    import scipy.sparse._sputils as _su
    if isinstance(getattr(_su, '_upcast_memo', None), dict):
        _su._upcast_memo = _NoMemo()
except Exception:       # noqa
    pass


def slicer_small(ser: int, axis_sel: int, mask: int) -> bool:
    """
    require: 0 <= ser < 6 and 0 <= axis_sel < 2 and 1 <= mask < 16
    """
    n = 3 if axis_sel == 0 else 4
    keep = [k for k in range(n) if (mask >> k) & 1]
    if not keep:
        return True
    return _check(0, ser, axis_sel, keep)


def slicer_json_literals(ser: int, axis_sel: int, mask: int) -> bool:
    """
    require: 0 <= ser < 6 and 0 <= axis_sel < 2 and 1 <= mask < 8
    """
    n = 2 if axis_sel == 0 else 3
    keep = [k for k in range(n) if (mask >> k) & 1]
    if not keep:
        return True
    return _check(3, ser, axis_sel, keep)


def slicer_request_order(ser: int, axis_sel: int, mask: int, rot: int) -> bool:
    """
    require: 0 <= ser < 6 and 0 <= axis_sel < 2 and 1 <= mask < 16 and 0 <= rot < 3
    """
    # the ids file may list the ids in any order: the result is the table's order all the same (what filter gives)
    n = 3 if axis_sel == 0 else 4
    keep = [k for k in range(n) if (mask >> k) & 1]
    if len(keep) < 2:
        return True
    keep = keep[::-1] if rot == 0 else keep[rot % len(keep):] + keep[:rot % len(keep)]
    return _check(0, ser, axis_sel, keep)


def slicer_awkward_text(axis_sel: int, mask: int) -> bool:
    """
    require: 0 <= axis_sel < 2 and 1 <= mask < 8
    """
    keep = [k for k in range(3) if (mask >> k) & 1]
    return _check(2, 0, axis_sel, keep)


def slicer_big(ser: int, axis_sel: int, p1: int, p2: int, p3: int) -> bool:
    """
    require: 0 <= ser < 6 and 0 <= axis_sel < 2 and 0 <= p1 < p2 < p3 < 11
    """
    return _check(1, ser, axis_sel, [p1, p2, p3])


def unknown_id_refused(ser: int, axis_sel: int, mask: int) -> bool:
    """
    require: 0 <= ser < 6 and 0 <= axis_sel < 2 and 0 <= mask < 8
    """
    axis = 'observation' if axis_sel == 0 else 'sample'
    t = _TABLES[0]
    ids = [str(t.ids(axis=axis)[k]) for k in range(3) if (mask >> k) & 1] + ['not-in-file']
    try:
        pieces, fmt = _subset_table(None, _doc(0, ser), axis, ids)
        ''.join(pieces)
    except Exception:       # noqa
        return True
    return False


def reachability_witness(ser: int, axis_sel: int, mask: int) -> bool:
    """
    require: 0 <= ser < 6 and 0 <= axis_sel < 2 and 1 <= mask < 8
    """
    return not slicer_small(ser, axis_sel, mask)


WITNESS = 'reachability_witness'


def signature(function, fixed, argtxt):
    s = ''
    if 'ser' in fixed:
        s += ':' + SERIALISATIONS[fixed['ser']][0]
    if 'axis_sel' in fixed:
        s += ':' + ('observation' if fixed['axis_sel'] == 0 else 'sample')
    return s


def shards(tier):
    out = [('slicer_awkward_text', {'axis_sel': 0}), ('slicer_awkward_text', {'axis_sel': 1})]
    for ser in range(len(SERIALISATIONS)):
        for ax in (0, 1):
            out.append(('slicer_small', {'ser': ser, 'axis_sel': ax}))
            out.append(('slicer_json_literals', {'ser': ser, 'axis_sel': ax}))
            if ser in (0, 3) or tier != 'quick':
                out.append(('slicer_request_order', {'ser': ser, 'axis_sel': ax}))
            out.append(('unknown_id_refused', {'ser': ser, 'axis_sel': ax}))
            if tier != 'quick':
                for p1, p2 in [(a_, b_) for a_ in range(0, 9) for b_ in range(a_ + 1, 10)]:
                    out.append(('slicer_big', {'ser': ser, 'axis_sel': ax, 'p1': p1, 'p2': p2}))
    if tier == 'quick':
        # positions mixing digit counts / hash-table slots; the serialisation stays symbolic
        for ax in (0, 1):
            for p1, p2, p3 in ((1, 2, 8), (2, 9, 10), (0, 5, 10), (3, 8, 9)):
                out.append(('slicer_big', {'axis_sel': ax, 'p1': p1, 'p2': p2, 'p3': p3}))
    return out
