"""CrossHair conditions for C17 (uc importer): parse_uc / from-uc yield the table whose cells are the counts of the records
naming that (observation, sample) pair.  Records are chosen by symbolic selectors from small menus (record type, query id,
target id); header / comment / blank lines are interleaved by a selector."""
import os
import sys

REPO = os.environ.get('VERIF_REPO', '/repo')
if REPO not in sys.path:
    sys.path.insert(0, REPO)

import biom.parse as BP                                 # noqa: E402
import biom.cli.uc_processor as UP                      # noqa: E402
from biom.exception import TableException               # noqa: E402


class Recorder:
    """stands in for biom.Table inside parse_uc / _from_uc under CrossHair: it records exactly what the importer hands to
    the constructor (building a real scipy-backed Table on every CrossHair path is ~100x slower and adds nothing: Table
    construction from a coordinate dict is covered by the C17 SX harness `forms`, update_ids by C06)"""

    def __init__(self, data, observation_ids=None, sample_ids=None, **kw):
        self.data = dict(data)
        self.obs = list(observation_ids)
        self.samp = list(sample_ids)

    def ids(self, axis='sample'):
        return self.obs if axis == 'observation' else self.samp

    def get_value_by_ids(self, o, s):
        return self.data.get((self.obs.index(o), self.samp.index(s)), 0)

    def update_ids(self, id_map, axis='sample', strict=True, inplace=True):
        ids = self.obs if axis == 'observation' else self.samp
        if strict and any(i not in id_map for i in ids):
            raise TableException("Mapping not provided")
        ids[:] = [id_map.get(i, i) for i in ids]
        return self


BP.Table = Recorder
parse_uc = BP.parse_uc
_from_uc = UP._from_uc
UP.parse_uc = BP.parse_uc

TYPES = ['H', 'S', 'L', 'N', 'C']
QUERIES = ['s1_1', 's1_2 extra words', 's2_7', 's_a_b_3', 'f2_1539']
TARGETS = ['*', 'o1', 'o2 some description', 's1_1']


def _line(t, q, g):
    f = [TYPES[t], '0', '100', '98.0', '+', '0', '0', '100M', QUERIES[q], TARGETS[g]]
    return '\t'.join(f) + '\n'


def _expected(records):
    obs, samp, counts = [], [], {}
    for t, q, g in records:
        typ = TYPES[t]
        if typ not in ('H', 'S', 'L'):
            continue
        query = QUERIES[q].split()[0]
        target = TARGETS[g].split()[0]
        o = query if target == '*' else target
        if o not in obs:
            obs.append(o)
        if typ in ('H', 'S'):
            s = query[:query.rindex('_')]
            if s not in samp:
                samp.append(s)
            counts[(o, s)] = counts.get((o, s), 0) + 1
    return obs, samp, counts


def _matches(table, obs, samp, counts):
    if [str(x) for x in table.ids(axis='observation')] != obs or [str(x) for x in table.ids()] != samp:
        return False
    if not obs or not samp:
        return True
    for o in obs:
        for s in samp:
            if float(table.get_value_by_ids(o, s)) != float(counts.get((o, s), 0)):
                return False
    return True


def uc_two_records(t1: int, q1: int, g1: int, t2: int, q2: int, g2: int, deco: int) -> bool:
    """
    require: 0 <= t1 < 5 and 0 <= q1 < 5 and 0 <= g1 < 4 and 0 <= t2 < 5 and 0 <= q2 < 5 and 0 <= g2 < 4 and 0 <= deco < 3
    """
    records = [(t1, q1, g1), (t2, q2, g2)]
    lines = [_line(*r) for r in records]
    if deco == 1:
        lines = ['# uclust --input seqs.fna\n', '\n'] + lines
    elif deco == 2:
        lines = [lines[0], '   \n', '# comment in the middle\n', lines[1], '\n']
    obs, samp, counts = _expected(records)
    try:
        t = parse_uc(lines)
    except Exception:       # noqa
        return False
    return _matches(t, obs, samp, counts)


def uc_three_records(t1: int, q1: int, g1: int, q2: int, g2: int, q3: int, g3: int) -> bool:
    """
    require: 0 <= t1 < 3 and 0 <= q1 < 5 and 0 <= g1 < 4 and 0 <= q2 < 5 and 0 <= g2 < 4 and 0 <= q3 < 5 and 0 <= g3 < 4
    """
    records = [(t1, q1, g1), (0, q2, g2), (1, q3, g3)]
    obs, samp, counts = _expected(records)
    try:
        t = parse_uc([_line(*r) for r in records])
    except Exception:       # noqa
        return False
    return _matches(t, obs, samp, counts)


def from_uc_renames(q1: int, g1: int, q2: int, g2: int, covered: int) -> bool:
    """
    require: 0 <= q1 < 5 and 0 <= g1 < 4 and 0 <= q2 < 5 and 0 <= g2 < 4 and 0 <= covered < 2
    """
    records = [(0, q1, g1), (1, q2, g2)]
    obs, samp, counts = _expected(records)
    fasta = []
    for k, o in enumerate(obs if covered else obs[:-1]):
        fasta += ['>OTU%d %s\n' % (k, o), 'ACGT\n']
    try:
        t = _from_uc([_line(*r) for r in records], fasta)
    except ValueError:
        return not covered          # an id without a fasta description must be refused
    except Exception:               # noqa
        return False
    if not covered:
        return False
    new_obs = ['OTU%d' % k for k in range(len(obs))]
    ren = {o: n for o, n in zip(obs, new_obs)}
    return _matches(t, new_obs, samp, {(ren[o], s): c for (o, s), c in counts.items()})


def reachability_witness(t1: int, q1: int, g1: int) -> bool:
    """
    require: 0 <= t1 < 2 and 0 <= q1 < 5 and 0 <= g1 < 4
    """
    return not uc_two_records(t1, q1, g1, 0, 0, 1, 0)


WITNESS = 'reachability_witness'


def shards(tier):
    out = []
    for t1 in range(4 if tier == 'quick' else 5):
        for t2 in range(4 if tier == 'quick' else 5):
            out.append(('uc_two_records', {'t1': t1, 't2': t2, 'deco': 0}))
            if tier != 'quick' or (t1, t2) == (0, 1):
                out.append(('uc_two_records', {'t1': t1, 't2': t2, 'deco': 1}))
                out.append(('uc_two_records', {'t1': t1, 't2': t2, 'deco': 2}))
    out.append(('from_uc_renames', {'covered': 0}))
    out.append(('from_uc_renames', {'covered': 1}))
    if tier != 'quick':
        for t1 in range(3):
            for q1 in range(5):
                for g1 in range(4):
                    out.append(('uc_three_records', {'t1': t1, 'q1': q1, 'g1': g1}))
    return out

