"""CrossHair conditions for C20 (error-handling profile honoured and scoped).

Every function returns True iff the property holds for its arguments; the contract `post: __return__` makes
CrossHair search all argument values (symbolic ints used as selectors) for one that returns False.
The real biom.err from /repo is driven; the oracle is a reference model of a scoped configuration stack.
"""
import io
import sys
import warnings
from contextlib import redirect_stdout

import os
REPO = os.environ.get('VERIF_REPO', '/repo')
if REPO not in sys.path:
    sys.path.insert(0, REPO)

import biom.err as E          # noqa: E402

KINDS = ['empty', 'obssize', 'sampsize', 'obsdup', 'sampdup', 'obsmdsize', 'sampmdsize']
STATES = ['ignore', 'warn', 'raise', 'call', 'print']
DEFAULT = {'empty': 'ignore', 'obssize': 'raise', 'sampsize': 'raise', 'obsdup': 'raise', 'sampdup': 'raise',
           'obsmdsize': 'raise', 'sampmdsize': 'raise'}


class Boom(Exception):
    pass


def _reset():
    E.seterr(**DEFAULT)


def _apply(model, op, k, s, depth_ops):
    """run one step on the real module and on the model; returns False on disagreement"""
    kind, state = KINDS[k], STATES[s]
    if op == 0:                                   # seterr(kind=state)
        old = E.seterr(**{kind: state})
        if old != model:
            return None
        model = dict(model)
        model[kind] = state
    elif op == 1:                                 # seterr(all=state)
        old = E.seterr(all=state)
        if old != model:
            return None
        model = {q: state for q in model}
    elif op == 2:                                 # unknown kind refused, profile unchanged -- alone, after a valid
        variant = (k + s) % 3                       # entry of the same call, or in a scoped override
        try:
            if variant == 0:
                E.seterr(nosuchkind=state)
            elif variant == 1:
                E.seterr(**{kind: state, 'nosuchkind': state})
            else:
                with E.errstate(**{kind: state, 'nosuchkind': state}):
                    pass
            return None
        except KeyError:
            pass
    elif op == 3:                                 # unknown reaction refused, profile unchanged
        try:
            E.seterr(**{kind: 'explode'})
            return None
        except KeyError:
            pass
    elif op == 4:                                 # one good and one bad entry: refused as a whole
        other = KINDS[(k + 1) % len(KINDS)]
        try:
            E.seterr(**{kind: state, other: 'explode'})
            return None
        except KeyError:
            pass
    elif op == 5 or op == 6:                      # scoped override, left normally (5) or by exception (6)
        inner = dict(model)
        inner[kind] = state
        try:
            with E.errstate(**{kind: state}):
                if E.geterr() != inner:
                    return None
                for (op2, k2, s2) in depth_ops:
                    inner = _apply(inner, op2, k2, s2, ())
                    if inner is None:
                        return None
                    if E.geterr() != inner:
                        return None
                if op == 6:
                    raise Boom()
        except Boom:
            pass
    elif op == 7 and (k + s) % 2 == 1:            # a scoped block without any override still scopes what happens inside it
        try:
            with E.errstate():
                if E.geterr() != model:
                    return None
                E.seterr(**{kind: state})
                inner = dict(model)
                inner[kind] = state
                if E.geterr() != inner:
                    return None
                if s % 2 == 0:
                    raise Boom()
        except Boom:
            pass
    elif op == 7:                                 # scoped override of everything
        inner = {q: state for q in model}
        with E.errstate(all=state):
            if E.geterr() != inner:
                return None
    if E.geterr() != model:
        return None
    return model


def _run(steps):
    """steps: list of (op, k, s, nested) -- nested is a tuple of inner steps for scoped blocks"""
    _reset()
    try:
        model = dict(DEFAULT)
        for op, k, s, nested in steps:
            model = _apply(model, op, k, s, nested)
            if model is None:
                return False
        return True
    finally:
        _reset()


def one_step(op: int, k: int, s: int) -> bool:
    """
    require: 0 <= op < 8 and 0 <= k < 7 and 0 <= s < 5
    """
    return _run([(op, k, s, ())])


# multi-step programs use reduced menus in the quick tier (first / middle / last kind, three reactions); the one-step
# condition covers the full 7 x 5 matrix, the thorough tier the full menus
KSEL = [0, 3, 6]
SSEL = [0, 2, 4]


def two_steps(op1: int, op2: int, k1: int, s1: int, k2: int, s2: int) -> bool:
    """
    require: 0 <= op1 < 8 and 0 <= op2 < 8
    require: 0 <= k1 < 3 and 0 <= s1 < 3 and 0 <= k2 < 3 and 0 <= s2 < 3
    """
    return _run([(op1, KSEL[k1], SSEL[s1], ()), (op2, KSEL[k2], SSEL[s2], ())])


def nested(op1: int, op3: int, k1: int, s1: int, k3: int, s3: int) -> bool:
    """
    require: 5 <= op1 < 7 and 0 <= op3 < 8
    require: 0 <= k1 < 3 and 0 <= s1 < 3 and 0 <= k3 < 3 and 0 <= s3 < 3
    """
    return _run([(op1, KSEL[k1], SSEL[s1], ((op3, KSEL[k3], SSEL[s3]),))])


def two_steps_full(op1: int, op2: int, k1: int, s1: int, k2: int, s2: int) -> bool:
    """
    require: 0 <= op1 < 8 and 0 <= op2 < 8
    require: 0 <= k1 < 7 and 0 <= s1 < 5 and 0 <= k2 < 7 and 0 <= s2 < 5
    """
    return _run([(op1, k1, s1, ()), (op2, k2, s2, ())])


def three_steps(op1: int, op2: int, op3: int, k1: int, s1: int, k2: int, s2: int, k3: int, s3: int) -> bool:
    """
    require: 0 <= op1 < 8 and 0 <= op2 < 8 and 0 <= op3 < 8
    require: 0 <= k1 < 3 and 0 <= s1 < 3 and 0 <= k2 < 3 and 0 <= s2 < 3 and 0 <= k3 < 3 and 0 <= s3 < 3
    """
    return _run([(op1, KSEL[k1], SSEL[s1], ((op3, KSEL[k3], SSEL[s3]),)), (op2, KSEL[k2], SSEL[s2], ())])


def callbacks(k: int, k2: int) -> bool:
    """
    require: 0 <= k < 7 and 0 <= k2 < 7
    """
    _reset()
    try:
        f = lambda t: 'called'      # noqa
        old = E.seterrcall(KINDS[k], f)
        ok = E.geterrcall(KINDS[k]) is f
        if k2 != k:
            ok = ok and E.geterrcall(KINDS[k2]) is not f
        E.seterrcall(KINDS[k], old)
        ok = ok and E.geterrcall(KINDS[k]) is old
        try:
            E.seterrcall('nosuchkind', f)
            ok = False
        except KeyError:
            pass
        try:
            E.geterrcall('nosuchkind')
            ok = False
        except KeyError:
            pass
        return ok
    finally:
        _reset()


def reachability_witness(op: int, k: int, s: int) -> bool:
    """
    require: 0 <= op < 8 and 0 <= k < 7 and 0 <= s < 5
    """
    # the same code as one_step, but claiming the opposite at the end: CrossHair MUST refute this, otherwise the
    # conditions above would be passing vacuously (unsatisfiable precondition / callee summarised / never executed)
    return not _run([(op, k, s, ())])


WITNESS = 'reachability_witness'


# shards: (function, {fixed leading selectors}) -- one CrossHair condition each
def shards(tier):
    out = [('one_step', {}), ('callbacks', {})]
    for op1 in range(8):
        for op2 in range(8):
            out.append(('two_steps', {'op1': op1, 'op2': op2}))
    for op1 in (5, 6):
        for op3 in range(8):
            out.append(('nested', {'op1': op1, 'op3': op3}))
    if tier != 'quick':
        for op1 in (5, 6):
            for op2 in (0, 1, 4, 5, 6):
                for op3 in (0, 1, 4, 5, 6):
                    for k1 in (0, 1, 2):
                        out.append(('three_steps', {'op1': op1, 'op2': op2, 'op3': op3, 'k1': k1}))
        for op1 in range(8):
            for op2 in range(8):
                for k1 in range(7):
                    out.append(('two_steps_full', {'op1': op1, 'op2': op2, 'k1': k1}))
    return out
