"""CrossHair conditions for C15: the JSON validator never reports `valid` for a structurally corrupt document.

The document is a concrete 2 x 2 skeleton whose declared shape and sparse coordinates are SYMBOLIC ints (unbounded);
a selector applies one (or two) structural mutations from the grammar.  Condition: valid(doc) ==> P(doc), where P is
the structural predicate of the property (written here from the statement, not from the validator).
"""
import copy
import os
import sys

REPO = os.environ.get('VERIF_REPO', '/repo')
if REPO not in sys.path:
    sys.path.insert(0, REPO)

import biom.cli.table_validator as TV      # noqa: E402

# error messages embed repr(coordinate): formatting a symbolic value would force CrossHair to pick one concrete value and
# turn every path into a point sample -- the text of the message is irrelevant to the property
TV.repr = lambda x: '<value>'


def base_doc():
    return {
        'id': None, 'format': 'Biological Observation Matrix 1.0.0', 'format_url': 'http://biom-format.org',
        'type': 'OTU table', 'generated_by': 'verif', 'date': '2021-03-04T05:06:07.891011',
        'matrix_type': 'sparse', 'matrix_element_type': 'float', 'shape': [2, 2],
        'data': [[0, 0, 1.5], [1, 1, 2.0]],
        'rows': [{'id': 'o1', 'metadata': None}, {'id': 'o2', 'metadata': {'k': 1}}],
        'columns': [{'id': 's1', 'metadata': None}, {'id': 's2', 'metadata': None}],
    }


REQUIRED = ['id', 'format', 'format_url', 'type', 'generated_by', 'date', 'rows', 'columns', 'matrix_type',
            'matrix_element_type', 'shape', 'data']


def _m_delete(k):
    return lambda d: d.pop(k)


def _m_rename(k):
    return lambda d: d.__setitem__(k + '_x', d.pop(k))


MUTATIONS = [('none', lambda d: None)]
MUTATIONS += [('delete:' + k, _m_delete(k)) for k in REQUIRED]
MUTATIONS += [('rename:' + k, _m_rename(k)) for k in ('rows', 'shape', 'data', 'date')]
MUTATIONS += [
    ('row-id-empty', lambda d: d['rows'][0].__setitem__('id', '')),
    ('col-id-empty', lambda d: d['columns'][1].__setitem__('id', '')),
    ('row-id-none', lambda d: d['rows'][1].__setitem__('id', None)),
    ('row-id-duplicated', lambda d: d['rows'][1].__setitem__('id', 'o1')),
    ('col-id-duplicated', lambda d: d['columns'][1].__setitem__('id', 's1')),
    ('row-missing-id', lambda d: d['rows'][0].pop('id')),
    ('col-missing-metadata', lambda d: d['columns'][0].pop('metadata')),
    ('row-metadata-list', lambda d: d['rows'][0].__setitem__('metadata', ['a'])),
    ('col-metadata-string', lambda d: d['columns'][0].__setitem__('metadata', 'x')),
    ('col-metadata-number', lambda d: d['columns'][1].__setitem__('metadata', 0)),
    ('extra-row', lambda d: d['rows'].append({'id': 'o3', 'metadata': None})),
    ('missing-column', lambda d: d['columns'].pop()),
    ('coord-arity-2', lambda d: d['data'].__setitem__(0, d['data'][0][:2])),
    ('coord-arity-4', lambda d: d['data'].__setitem__(1, d['data'][1] + [7])),
    ('coord-x-float', lambda d: d['data'][0].__setitem__(0, 0.5)),
    ('coord-x-bool', lambda d: d['data'][0].__setitem__(0, True)),
    ('coord-y-bool', lambda d: d['data'][1].__setitem__(1, False)),
    ('shape-bool', lambda d: d.__setitem__('shape', [True, d['shape'][1]])),
    ('coord-y-string', lambda d: d['data'][1].__setitem__(1, '1')),
    ('value-string', lambda d: d['data'][0].__setitem__(2, 'abc')),
    ('value-none', lambda d: d['data'][1].__setitem__(2, None)),
    ('element-type-int-with-float-values', lambda d: d.__setitem__('matrix_element_type', 'int')),
    ('element-type-unknown', lambda d: d.__setitem__('matrix_element_type', 'complex')),
    ('matrix-type-dense-with-sparse-data', lambda d: d.__setitem__('matrix_type', 'dense')),
    ('matrix-type-unknown', lambda d: d.__setitem__('matrix_type', 'csr')),
    ('date-corrupt', lambda d: d.__setitem__('date', 'yesterday')),
    ('format-corrupt', lambda d: d.__setitem__('format', 'BIOM 9')),
    ('url-corrupt', lambda d: d.__setitem__('format_url', 'http://example.org')),
    ('type-unknown', lambda d: d.__setitem__('type', 'Soup table')),
    ('generated-by-empty', lambda d: d.__setitem__('generated_by', '')),
    ('shape-string', lambda d: d.__setitem__('shape', ['2', '2'])),
]
NAMES = [n for n, _ in MUTATIONS]
DTYPES = {'int': int, 'float': float, 'str': str, 'unicode': str}


def P(d):
    """the structural predicate of C15 (for sparse documents)"""
    for k in REQUIRED:
        if k not in d:
            return False
    sh = d['shape']
    if not (isinstance(sh, list) and len(sh) == 2 and all(isinstance(v, int) and not isinstance(v, bool) for v in sh)):
        return False
    if len(d['rows']) != sh[0] or len(d['columns']) != sh[1]:
        return False
    for axis in ('rows', 'columns'):
        ids = []
        for rec in d[axis]:
            if 'id' not in rec or 'metadata' not in rec:
                return False
            if not isinstance(rec['id'], str) or rec['id'] == '':
                return False
            if not (rec['metadata'] is None or isinstance(rec['metadata'], dict)):
                return False
            ids.append(rec['id'])
        if len(set(ids)) != len(ids):
            return False
    if d['matrix_type'] != 'sparse' or d['matrix_element_type'] not in DTYPES:
        return False
    dt = DTYPES[d['matrix_element_type']]
    for c in d['data']:
        if not isinstance(c, list) or len(c) != 3:
            return False
        x, y, v = c
        if not (isinstance(x, int) and isinstance(y, int)) or isinstance(x, bool) or isinstance(y, bool):
            return False
        if not (0 <= x < sh[0] and 0 <= y < sh[1]):
            return False
        if not isinstance(v, dt):
            return False
    return True


def _valid(doc):
    try:
        r = TV.TableValidator()._validate_json(table=doc, format_version='1.0.0')
        return bool(r['valid_table'])
    except Exception:       # noqa  -- "never reports valid" counts an exception as not-valid
        return False


def json_valid_implies_wellformed(mut: int, a: int, b: int, x1: int, y1: int, x2: int, y2: int) -> bool:
    """
    require: 0 <= mut < 48
    """
    d = base_doc()
    d['shape'] = [a, b]
    d['data'] = [[x1, y1, 1.5], [x2, y2, 2.0]]
    MUTATIONS[mut][1](d)
    return (not _valid(d)) or P(d)


def json_two_mutations(m1: int, m2: int, a: int, b: int, x1: int, y1: int) -> bool:
    """
    require: 0 <= m1 < 48 and 0 <= m2 < 48
    """
    d = base_doc()
    d['shape'] = [a, b]
    d['data'] = [[x1, y1, 1.5], [1, 1, 2.0]]
    for m in (m1, m2):
        try:
            MUTATIONS[m][1](d)
        except (KeyError, IndexError, AttributeError, TypeError):
            pass                # the second mutation may address something the first one removed
    return (not _valid(d)) or P(d)


def json_valid_axis_lengths(nrows: int, ncols: int, a: int, b: int, x1: int, y1: int) -> bool:
    """
    require: 0 <= nrows < 3 and 0 <= ncols < 3
    """
    # the number of ids per axis varies too, down to none (a coordinate can never lie inside an empty axis)
    d = base_doc()
    d['rows'] = d['rows'][:nrows]
    d['columns'] = d['columns'][:ncols]
    d['shape'] = [a, b]
    d['data'] = [[x1, y1, 1.5]]
    return (not _valid(d)) or P(d)


def wellformed_is_accepted(a: int, b: int, x1: int, y1: int, x2: int, y2: int) -> bool:
    """
    require: 0 <= a and 0 <= b
    """
    # the converse on the unmutated skeleton: whatever is structurally fine is reported valid
    d = base_doc()
    d['shape'] = [a, b]
    d['data'] = [[x1, y1, 1.5], [x2, y2, 2.0]]
    return (not P(d)) or _valid(d)


def reachability_witness(a: int, b: int, x1: int, y1: int) -> bool:
    """
    require: 0 <= a and 0 <= b
    """
    d = base_doc()
    d['shape'] = [a, b]
    d['data'] = [[x1, y1, 1.5], [1, 1, 2.0]]
    return not (_valid(d) and P(d))       # must be refuted: there are valid, well-formed documents


WITNESS = 'reachability_witness'


def signature(function, fixed, argtxt):
    if function == 'json_valid_implies_wellformed' and 'mut' in fixed:
        return ':' + NAMES[fixed['mut']]
    if function == 'json_two_mutations':
        return ':' + NAMES[fixed.get('m1', 0)] + '+' + NAMES[fixed.get('m2', 0)]
    return ''


def shards(tier):
    assert len(MUTATIONS) == 48, len(MUTATIONS)
    out = [('wellformed_is_accepted', {})]
    for nr in range(3):
        for nc in range(3):
            if (nr, nc) != (2, 2):
                out.append(('json_valid_axis_lengths', {'nrows': nr, 'ncols': nc}))
    for m in range(len(MUTATIONS)):
        out.append(('json_valid_implies_wellformed', {'mut': m}))
    if tier != 'quick':
        for m1 in range(1, len(MUTATIONS)):
            for m2 in range(m1 + 1, len(MUTATIONS)):
                out.append(('json_two_mutations', {'m1': m1, 'm2': m2}))
    return out
