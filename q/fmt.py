"""Direct z3 floating-point queries about fixed-precision number formatting (DESIGN.md section 3).

Question: is there a finite, non-zero double whose rendering with `spec` does not read back as the same double?
The rendering of v with P fractional digits is the decimal k / 10^P with k = round(v * 10^P) (CPython's correctly
rounded dtoa), and reading text back is a FUNCTION of that decimal.  So the format is inexact iff two DISTINCT doubles
are rendered to the same decimal:   exists v1 != v2, k :  |v1*10^P - k| < 1/2  and  |v2*10^P - k| < 1/2
-- a query over Float64 terms (fpToReal) and linear real/integer arithmetic, without fp rounding of the quotient
(the direct formulation with fpRealToFP was `unknown` after 60 s on both z3 versions for %g / %d).  sat => the two
witnesses are rendered with the real `%` operator in Python and the one that does not read back is returned;
unsat => exact on the queried range; unknown => inconclusive.
Ranges queried: [1, 2) for %f/%e/%g (P digits there), [1/4, 4) for %d.
"""
import re
import time
import z3

_CACHE = {}


def _fp_value(mv):
    sign = mv.sign()
    sig = mv.significand_as_long()
    ex = mv.exponent_as_long(False)
    if mv.isSubnormal():
        w = sig * 2.0 ** (-1022 - 52)
    else:
        w = (1 + sig / 2.0 ** 52) * 2.0 ** ex
    return -w if sign else w


def inexact_witness(spec, timeout_ms=60000):
    """returns (status, witness, seconds): status in 'exact' | 'inexact' | 'unknown'"""
    if spec in _CACHE:
        return _CACHE[spec]
    t0 = time.time()
    m = re.fullmatch(r'%(?:\d*)(?:\.(\d+))?([fgde])', spec)
    if not m:
        res = ('unknown', None, 0.0)
        _CACHE[spec] = res
        return res
    prec = int(m.group(1)) if m.group(1) is not None else 6
    conv = m.group(2)
    if conv == 'f':
        scale, lo, hi = 10 ** prec, 1.0, 2.0
    elif conv == 'e':
        scale, lo, hi = 10 ** prec, 1.0, 2.0
    elif conv == 'g':
        scale, lo, hi = 10 ** max(prec - 1, 0), 1.0, 2.0
    else:
        scale, lo, hi = 1, 0.25, 4.0
    fp = z3.Float64()
    v1, v2 = z3.FP('v1', fp), z3.FP('v2', fp)
    k = z3.Int('k')
    s = z3.Solver()
    s.set('timeout', timeout_ms)
    for v in (v1, v2):
        s.add(z3.fpLEQ(z3.FPVal(lo, fp), v), z3.fpLT(v, z3.FPVal(hi, fp)))
        rv = z3.fpToReal(v)
        if conv == 'd':     # truncation towards zero
            s.add(z3.ToReal(k) <= rv, rv < z3.ToReal(k) + 1)
        else:
            s.add(z3.ToReal(k) - rv * scale < z3.RealVal('1/2'), rv * scale - z3.ToReal(k) < z3.RealVal('1/2'))
    s.add(z3.Not(z3.fpEQ(v1, v2)))
    r = s.check()
    dt = round(time.time() - t0, 2)
    res = ('unknown', None, dt)
    if r == z3.sat:
        mdl = s.model()
        for cand in (_fp_value(mdl[v1]), _fp_value(mdl[v2])):
            try:
                if float(spec % cand) != cand:
                    res = ('inexact', cand, dt)
                    break
            except (ValueError, OverflowError):
                res = ('inexact', cand, dt)
                break
    elif r == z3.unsat:
        res = ('exact', None, dt)
    _CACHE[spec] = res
    return res


if __name__ == '__main__':
    import sys
    for sp in sys.argv[1:] or ['%f', '%g', '%d', '%1.3f', '%.17g']:
        print(sp, inexact_witness(sp, 20000))
