"""Direct z3 string queries: can a string from `domain` break out of the syntactic position it is interpolated into?"""
import time
import z3

_CACHE = {}


def _cls(chars):
    chars = list(chars)
    return z3.Union(*[z3.Re(z3.StringVal(c)) for c in chars]) if len(chars) > 1 else z3.Re(z3.StringVal(chars[0]))


def json_string_body():
    """regular language of text that may stand between the quotes of a JSON string WITHOUT any escaping having been applied
    and still denote itself: no quote, no backslash, no control character"""
    bad = ['"', '\\'] + [chr(c) for c in range(0, 32)]
    anyc = z3.AllChar(z3.ReSort(z3.StringSort()))
    return z3.Star(z3.Diff(anyc, _cls(bad)))


def unsafe_witness(kind='json-string', maxlen=4, timeout_ms=20000):
    """a text of the property's domain (arbitrary text) that is not safe to interpolate raw; ('unsafe', s, t) | ('safe', None, t) | ('unknown', ...)"""
    if kind in _CACHE:
        return _CACHE[kind]
    t0 = time.time()
    s = z3.String('s')
    sol = z3.Solver()
    sol.set('timeout', timeout_ms)
    sol.add(z3.Length(s) <= maxlen, z3.Length(s) >= 1)
    # printable ASCII only, so that the witness is a plain quote/backslash rather than an exotic code point
    sol.add(z3.InRe(s, z3.Star(z3.Range(' ', '~'))))
    sol.add(z3.Not(z3.InRe(s, json_string_body())))
    r = sol.check()
    dt = round(time.time() - t0, 2)
    if r == z3.sat:
        res = ('unsafe', sol.model()[s].as_string(), dt)
    elif r == z3.unsat:
        res = ('safe', None, dt)
    else:
        res = ('unknown', None, dt)
    _CACHE[kind] = res
    return res


if __name__ == '__main__':
    print(unsafe_witness())
